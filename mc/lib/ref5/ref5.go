// Package ref5 is an independent reference implementation of QUIC packet protection
// (RFC 9001 for QUIC v1, RFC 9369 for QUIC v2) and of the packet-number codec of RFC 9000
// Appendix A. It is the oracle of the C05 model-checking harness and the decryption
// engine of the passive wire monitor. It is written from the RFC texts, uses only the Go
// standard library plus golang.org/x/crypto/{chacha20,chacha20poly1305}, and shares no
// code with github.com/refraction-networking/uquic/internal/handshake (HKDF is built
// directly on crypto/hmac here).
//
// # API at a glance
//
// Constants
//
//	Version1, Version2                       QUIC version numbers
//	TLS_AES_128_GCM_SHA256, TLS_AES_256_GCM_SHA384, TLS_CHACHA20_POLY1305_SHA256
//
// Key derivation
//
//	HKDFExtract(newHash, ikm, salt) []byte
//	HKDFExpand(newHash, prk, info, n) []byte
//	HKDFExpandLabel(newHash, secret, label, context, n) []byte        RFC 8446 7.1 ("tls13 " prefix)
//	InitialSalt(version) []byte
//	InitialSecrets(version, dcid) (client, server []byte)             RFC 9001 5.2
//	InitialKeys(version, dcid) (client, server Keys)                  always AES-128-GCM / SHA-256
//	KeysFromSecret(secret, version, suite) Keys                       "quic key|iv|hp" / "quicv2 key|iv|hp"
//	NextGeneration(secret, version, suite) []byte                     "quic ku" / "quicv2 ku" (RFC 9001 6.1, RFC 9369 3.3.2)
//	ParseKeyLog(text) []KeyLogEntry, (KeyLogEntry).Suites(), (KeyLogEntry).Keys(label, version, suite)
//	                                                                  NSS key-log lines -> handshake / 1-RTT / 0-RTT keys
//
// Packet protection
//
//	Keys{Suite, Key, IV, HP}
//	(Keys).Seal(hdr, payload, pn) []byte                              AEAD: nonce = IV xor pn, AD = unprotected header
//	(Keys).Open(hdr, ciphertext, pn) ([]byte, error)
//	(Keys).HeaderMask(sample) [5]byte                                 AES-ECB or ChaCha20 (RFC 9001 5.4.3 / 5.4.4)
//	Protect(hdr, payload, pn, keys) ([]byte, error)                   hdr = complete unprotected header, its last
//	                                                                  (hdr[0]&3)+1 bytes are the truncated packet number;
//	                                                                  works for long and short headers
//	ParseLong(packet) (LongHeader, error)                             invariant + version specific fields, pn offset, packet end
//	UnprotectLong(packet, keys, largestPN, dcidLen) (hdrLen, pn, payload, err)
//	UnprotectShort(packet, keys, largestPN, dcidLen) (hdrLen, pn, payload, err)
//	UnprotectLongFull / UnprotectShortFull                            same, but also return the unprotected header bytes
//	RetryTag(version, odcid, retryWithoutTag) [16]byte                RFC 9001 5.8 / RFC 9369 3.3.3
//
// Packet numbers (RFC 9000 Appendix A.2 / A.3)
//
//	EncodedPacketNumberLength(fullPN, largestAcked) int               minimum number of bytes (may exceed 4: not encodable)
//	EncodePacketNumber(fullPN, length) []byte                         the `length` least significant bytes
//	DecodePacketNumber(largestPN, truncated, length) uint64           length in bytes; largestPN < 0 = nothing received yet
//
// Self-test
//
//	SelfTest() error                                                  a handful of RFC 9001 / 9369 / 9000 vectors
//
// All functions are pure and safe for concurrent use; Keys values are plain data.
package ref5

import (
	"bytes"
	"crypto/aes"
	"crypto/cipher"
	"crypto/hmac"
	"crypto/sha256"
	"crypto/sha512"
	"encoding/binary"
	"encoding/hex"
	"errors"
	"fmt"
	"hash"
	"math/bits"
	"strings"

	"golang.org/x/crypto/chacha20"
	"golang.org/x/crypto/chacha20poly1305"
)

const (
	Version1 uint32 = 0x00000001
	Version2 uint32 = 0x6b3343cf

	TLS_AES_128_GCM_SHA256       uint16 = 0x1301
	TLS_AES_256_GCM_SHA384       uint16 = 0x1302
	TLS_CHACHA20_POLY1305_SHA256 uint16 = 0x1303

	// SampleLen is the size of the header protection sample, TagLen the AEAD expansion of
	// all three QUIC cipher suites.
	SampleLen = 16
	TagLen    = 16
)

var (
	ErrUnknownSuite = errors.New("ref5: unknown cipher suite")
	ErrShort        = errors.New("ref5: packet too short")
	ErrHeader       = errors.New("ref5: malformed header")
	ErrAuth         = errors.New("ref5: AEAD authentication failed")
)

// ---------------------------------------------------------------------------------------
// HKDF (RFC 5869) and HKDF-Expand-Label (RFC 8446 section 7.1)

// HKDFExtract is HKDF-Extract(salt, IKM) = HMAC-Hash(salt, IKM).
func HKDFExtract(newHash func() hash.Hash, ikm, salt []byte) []byte {
	if len(salt) == 0 {
		salt = make([]byte, newHash().Size())
	}
	m := hmac.New(newHash, salt)
	m.Write(ikm)
	return m.Sum(nil)
}

// HKDFExpand is HKDF-Expand(PRK, info, L).
func HKDFExpand(newHash func() hash.Hash, prk, info []byte, n int) []byte {
	hl := newHash().Size()
	if n < 0 || n > 255*hl {
		panic("ref5: HKDF-Expand length out of range")
	}
	var out, t []byte
	for i := byte(1); len(out) < n; i++ {
		m := hmac.New(newHash, prk)
		m.Write(t)
		m.Write(info)
		m.Write([]byte{i})
		t = m.Sum(nil)
		out = append(out, t...)
	}
	return out[:n]
}

// HKDFExpandLabel is HKDF-Expand-Label(Secret, Label, Context, Length) of RFC 8446: the
// info is struct { uint16 length; opaque label<7..255> = "tls13 " + Label; opaque context<0..255> }.
func HKDFExpandLabel(newHash func() hash.Hash, secret []byte, label string, context []byte, n int) []byte {
	full := "tls13 " + label
	if len(full) > 255 || len(context) > 255 || n > 0xffff {
		panic("ref5: HKDF-Expand-Label argument out of range")
	}
	info := make([]byte, 0, 4+len(full)+len(context))
	info = append(info, byte(n>>8), byte(n))
	info = append(info, byte(len(full)))
	info = append(info, full...)
	info = append(info, byte(len(context)))
	info = append(info, context...)
	return HKDFExpand(newHash, secret, info, n)
}

// ---------------------------------------------------------------------------------------
// suites, versions, labels

type suiteInfo struct {
	newHash func() hash.Hash
	keyLen  int
}

func suiteOf(suite uint16) (suiteInfo, bool) {
	switch suite {
	case TLS_AES_128_GCM_SHA256:
		return suiteInfo{sha256.New, 16}, true
	case TLS_AES_256_GCM_SHA384:
		return suiteInfo{sha512.New384, 32}, true
	case TLS_CHACHA20_POLY1305_SHA256:
		return suiteInfo{sha256.New, 32}, true
	}
	return suiteInfo{}, false
}

func mustSuite(suite uint16) suiteInfo {
	si, ok := suiteOf(suite)
	if !ok {
		panic(fmt.Sprintf("ref5: unknown cipher suite %#04x", suite))
	}
	return si
}

// labelPrefix is "quicv2 " for QUIC v2 (RFC 9369 3.3.2) and "quic " for everything else.
func labelPrefix(version uint32) string {
	if version == Version2 {
		return "quicv2 "
	}
	return "quic "
}

var (
	// RFC 9001 5.2
	saltV1 = mustHex("38762cf7f55934b34d179ae6a4c80cadccbb7f0a")
	// RFC 9369 3.3.1
	saltV2 = mustHex("0dede3def700a6db819381be6e269dcbf9bd2ed9")

	// RFC 9001 5.8
	retryKeyV1   = mustHex("be0c690b9f66575a1d766b54e368c84e")
	retryNonceV1 = mustHex("461599d35d632bf2239825bb")
	// RFC 9369 3.3.3
	retryKeyV2   = mustHex("8fb4b01b56ac48e260fbcbcead7ccc92")
	retryNonceV2 = mustHex("d86969bc2d7c6d9990efb04a")
)

// RetrySecret returns the secret from which the QUIC v1 Retry key and nonce are derived
// with the labels "quic key" / "quic iv" (RFC 9001 5.8; used by the self-test to
// cross-check the hard-coded key and nonce). It returns nil for other versions.
func RetrySecret(version uint32) []byte {
	if version != Version1 {
		return nil
	}
	return mustHex("d9c9943e6101fd200021506bcc02814c73030f25c79d71ce876eca876e6fca8e")
}

func mustHex(s string) []byte {
	b, err := hex.DecodeString(strings.ReplaceAll(s, " ", ""))
	if err != nil {
		panic(err)
	}
	return b
}

// InitialSalt returns the version specific salt of the Initial secrets.
func InitialSalt(version uint32) []byte {
	if version == Version2 {
		return append([]byte(nil), saltV2...)
	}
	return append([]byte(nil), saltV1...)
}

// InitialSecrets derives client_initial_secret and server_initial_secret from the
// Destination Connection ID of the client's first Initial packet (RFC 9001 5.2).
func InitialSecrets(version uint32, dcid []byte) (client, server []byte) {
	initial := HKDFExtract(sha256.New, dcid, InitialSalt(version))
	client = HKDFExpandLabel(sha256.New, initial, "client in", nil, 32)
	server = HKDFExpandLabel(sha256.New, initial, "server in", nil, 32)
	return client, server
}

// InitialKeys returns the packet protection keys the client resp. the server uses to
// SEND Initial packets.
func InitialKeys(version uint32, dcid []byte) (client, server Keys) {
	cs, ss := InitialSecrets(version, dcid)
	return KeysFromSecret(cs, version, TLS_AES_128_GCM_SHA256), KeysFromSecret(ss, version, TLS_AES_128_GCM_SHA256)
}

// KeysFromSecret derives key, iv and hp from a traffic secret (RFC 9001 5.1).
func KeysFromSecret(secret []byte, version uint32, suite uint16) Keys {
	si := mustSuite(suite)
	p := labelPrefix(version)
	return Keys{
		Suite: suite,
		Key:   HKDFExpandLabel(si.newHash, secret, p+"key", nil, si.keyLen),
		IV:    HKDFExpandLabel(si.newHash, secret, p+"iv", nil, 12),
		HP:    HKDFExpandLabel(si.newHash, secret, p+"hp", nil, si.keyLen),
	}
}

// NextGeneration derives the traffic secret of the next key phase (RFC 9001 6.1:
// secret_<n+1> = HKDF-Expand-Label(secret_<n>, "quic ku", "", Hash.length); RFC 9369
// 3.3.2 changes the label to "quicv2 ku"). The header protection key is NOT updated:
// keep Keys.HP of generation 0.
func NextGeneration(secret []byte, version uint32, suite uint16) []byte {
	si := mustSuite(suite)
	return HKDFExpandLabel(si.newHash, secret, labelPrefix(version)+"ku", nil, si.newHash().Size())
}

// GenerationKeys returns the keys of key-update generation n (0 = the TLS traffic secret
// itself). Key and IV change with the generation, HP stays that of generation 0.
func GenerationKeys(secret []byte, version uint32, suite uint16, n int) Keys {
	k0 := KeysFromSecret(secret, version, suite)
	s := secret
	for i := 0; i < n; i++ {
		s = NextGeneration(s, version, suite)
	}
	k := KeysFromSecret(s, version, suite)
	k.HP = k0.HP
	return k
}

// ---------------------------------------------------------------------------------------
// AEAD and header protection

// Keys is one direction's packet protection key set.
type Keys struct {
	Suite uint16
	Key   []byte // AEAD key
	IV    []byte // 12 bytes
	HP    []byte // header protection key
}

func (k Keys) aead() (cipher.AEAD, error) {
	switch k.Suite {
	case TLS_AES_128_GCM_SHA256, TLS_AES_256_GCM_SHA384:
		b, err := aes.NewCipher(k.Key)
		if err != nil {
			return nil, err
		}
		return cipher.NewGCM(b)
	case TLS_CHACHA20_POLY1305_SHA256:
		return chacha20poly1305.New(k.Key)
	}
	return nil, ErrUnknownSuite
}

// Nonce is the AEAD nonce of packet number pn: the 62-bit packet number in network byte
// order, left-padded with zeros to the IV size, XORed with the IV (RFC 9001 5.3).
func (k Keys) Nonce(pn uint64) []byte {
	n := append([]byte(nil), k.IV...)
	for i := 0; i < 8; i++ {
		n[len(n)-1-i] ^= byte(pn >> (8 * i))
	}
	return n
}

// Seal returns AEAD(payload) || tag with the unprotected header hdr as associated data.
func (k Keys) Seal(hdr, payload []byte, pn uint64) []byte {
	a, err := k.aead()
	if err != nil {
		panic(err)
	}
	return a.Seal(nil, k.Nonce(pn), payload, hdr)
}

// Open verifies and decrypts ciphertext||tag.
func (k Keys) Open(hdr, ciphertext []byte, pn uint64) ([]byte, error) {
	a, err := k.aead()
	if err != nil {
		return nil, err
	}
	pt, err := a.Open(nil, k.Nonce(pn), ciphertext, hdr)
	if err != nil {
		return nil, ErrAuth
	}
	if pt == nil {
		pt = []byte{}
	}
	return pt, nil
}

// HeaderMask computes the 5 mask bytes from a 16-byte ciphertext sample
// (AES-ECB of the sample, or ChaCha20 with counter = sample[0..3] little endian and
// nonce = sample[4..15] applied to five zero bytes).
func (k Keys) HeaderMask(sample []byte) [5]byte {
	var m [5]byte
	if len(sample) != SampleLen {
		panic("ref5: header protection sample must be 16 bytes")
	}
	switch k.Suite {
	case TLS_AES_128_GCM_SHA256, TLS_AES_256_GCM_SHA384:
		b, err := aes.NewCipher(k.HP)
		if err != nil {
			panic(err)
		}
		var out [16]byte
		b.Encrypt(out[:], sample)
		copy(m[:], out[:5])
	case TLS_CHACHA20_POLY1305_SHA256:
		c, err := chacha20.NewUnauthenticatedCipher(k.HP, sample[4:16])
		if err != nil {
			panic(err)
		}
		c.SetCounter(binary.LittleEndian.Uint32(sample[0:4]))
		c.XORKeyStream(m[:], m[:])
	default:
		panic(ErrUnknownSuite)
	}
	return m
}

func firstByteMask(first byte) byte {
	if first&0x80 != 0 {
		return 0x0f // long header: 4 bits
	}
	return 0x1f // short header: 5 bits
}

// Protect builds a protected packet from a complete unprotected header (the packet
// number length is taken from the two least significant bits of hdr[0]; the truncated
// packet number is the tail of hdr), the plaintext payload and the full packet number.
// For long headers the caller is responsible for a Length field that equals
// pnLen + len(payload) + 16. The payload must be long enough to yield a header
// protection sample: len(payload) >= 4 - pnLen.
func Protect(hdr, payload []byte, pn uint64, k Keys) ([]byte, error) {
	if len(hdr) == 0 {
		return nil, ErrHeader
	}
	pnLen := int(hdr[0]&3) + 1
	if len(hdr) < 1+pnLen {
		return nil, ErrHeader
	}
	pnOff := len(hdr) - pnLen
	if pnLen+len(payload)+TagLen < 4+SampleLen {
		return nil, ErrShort
	}
	out := append([]byte(nil), hdr...)
	out = append(out, k.Seal(hdr, payload, pn)...)
	mask := k.HeaderMask(out[pnOff+4 : pnOff+4+SampleLen])
	out[0] ^= mask[0] & firstByteMask(out[0])
	for i := 0; i < pnLen; i++ {
		out[pnOff+i] ^= mask[1+i]
	}
	return out, nil
}

// ---------------------------------------------------------------------------------------
// header parsing

// Long header packet types (version independent numbering of this package).
const (
	TypeInitial   = 0
	TypeZeroRTT   = 1
	TypeHandshake = 2
	TypeRetry     = 3
)

// LongHeader is what can be read from a long header packet without removing header
// protection.
type LongHeader struct {
	Version   uint32
	Type      int // TypeInitial ... TypeRetry (already translated for QUIC v2)
	DCID      []byte
	SCID      []byte
	Token     []byte // Initial only
	Length    uint64 // value of the Length field (packet number + payload)
	PNOffset  int    // offset of the (protected) packet number
	PacketLen int    // PNOffset + Length: end of this packet inside a coalesced datagram
}

// ReadVarint decodes a QUIC variable-length integer (RFC 9000 section 16).
func ReadVarint(b []byte) (v uint64, n int, err error) {
	if len(b) == 0 {
		return 0, 0, ErrShort
	}
	n = 1 << (b[0] >> 6)
	if len(b) < n {
		return 0, 0, ErrShort
	}
	v = uint64(b[0] & 0x3f)
	for i := 1; i < n; i++ {
		v = v<<8 | uint64(b[i])
	}
	return v, n, nil
}

// AppendVarint appends v in its shortest encoding.
func AppendVarint(b []byte, v uint64) []byte {
	switch {
	case v < 1<<6:
		return append(b, byte(v))
	case v < 1<<14:
		return append(b, byte(v>>8)|0x40, byte(v))
	case v < 1<<30:
		return append(b, byte(v>>24)|0x80, byte(v>>16), byte(v>>8), byte(v))
	case v < 1<<62:
		return append(b, byte(v>>56)|0xc0, byte(v>>48), byte(v>>40), byte(v>>32), byte(v>>24), byte(v>>16), byte(v>>8), byte(v))
	}
	panic("ref5: varint out of range")
}

// ParseLong parses the unprotected part of a long header packet (Initial, 0-RTT,
// Handshake; Retry packets yield Type == TypeRetry with PNOffset = PacketLen = len(packet)).
func ParseLong(packet []byte) (LongHeader, error) {
	var h LongHeader
	if len(packet) < 7 {
		return h, ErrShort
	}
	if packet[0]&0x80 == 0 {
		return h, ErrHeader
	}
	h.Version = binary.BigEndian.Uint32(packet[1:5])
	t := int(packet[0] >> 4 & 3)
	if h.Version == Version2 { // RFC 9369 3.2
		t = (t + 3) & 3 // 1->0 Initial, 2->1 0-RTT, 3->2 Handshake, 0->3 Retry
	}
	h.Type = t
	p := 5
	dl := int(packet[p])
	p++
	if dl > 20 || len(packet) < p+dl+1 {
		return h, ErrHeader
	}
	h.DCID = packet[p : p+dl]
	p += dl
	sl := int(packet[p])
	p++
	if sl > 20 || len(packet) < p+sl {
		return h, ErrHeader
	}
	h.SCID = packet[p : p+sl]
	p += sl
	if h.Type == TypeRetry {
		h.PNOffset, h.PacketLen = len(packet), len(packet)
		return h, nil
	}
	if h.Type == TypeInitial {
		tl, n, err := ReadVarint(packet[p:])
		if err != nil {
			return h, err
		}
		p += n
		if tl > uint64(len(packet)-p) {
			return h, ErrShort
		}
		h.Token = packet[p : p+int(tl)]
		p += int(tl)
	}
	l, n, err := ReadVarint(packet[p:])
	if err != nil {
		return h, err
	}
	p += n
	h.Length = l
	h.PNOffset = p
	if l > uint64(len(packet)-p) {
		return h, ErrShort
	}
	h.PacketLen = p + int(l)
	return h, nil
}

// unprotect removes header protection and opens the packet whose packet number field
// starts at pnOff and which ends at end.
func unprotect(packet []byte, pnOff, end int, k Keys, largestPN int64) (hdr []byte, pn uint64, payload []byte, err error) {
	if pnOff+4+SampleLen > end || end > len(packet) {
		return nil, 0, nil, ErrShort
	}
	mask := k.HeaderMask(packet[pnOff+4 : pnOff+4+SampleLen])
	first := packet[0] ^ mask[0]&firstByteMask(packet[0])
	pnLen := int(first&3) + 1
	hdr = append([]byte(nil), packet[:pnOff+pnLen]...)
	hdr[0] = first
	var trunc uint64
	for i := 0; i < pnLen; i++ {
		hdr[pnOff+i] ^= mask[1+i]
		trunc = trunc<<8 | uint64(hdr[pnOff+i])
	}
	pn = DecodePacketNumber(largestPN, trunc, pnLen)
	payload, err = k.Open(hdr, packet[pnOff+pnLen:end], pn)
	if err != nil {
		return hdr, pn, nil, err
	}
	return hdr, pn, payload, nil
}

// UnprotectLongFull unprotects the first packet of a (possibly coalesced) datagram.
// keys are the SENDER's keys; largestPN is the largest packet number successfully
// processed in this packet number space so far (-1: none). It returns the unprotected
// header bytes (first byte and packet number in clear), the full packet number, the
// plaintext payload and the number of bytes of the datagram this packet occupied.
func UnprotectLongFull(packet []byte, k Keys, largestPN int64) (hdr []byte, pn uint64, payload []byte, packetLen int, err error) {
	h, err := ParseLong(packet)
	if err != nil {
		return nil, 0, nil, 0, err
	}
	if h.Type == TypeRetry {
		return nil, 0, nil, 0, ErrHeader
	}
	hdr, pn, payload, err = unprotect(packet, h.PNOffset, h.PacketLen, k, largestPN)
	return hdr, pn, payload, h.PacketLen, err
}

// UnprotectLong is UnprotectLongFull reduced to header length, packet number and payload.
// dcidLen is ignored (long headers carry their connection ID lengths); it is part of the
// signature for symmetry with UnprotectShort.
func UnprotectLong(packet []byte, k Keys, largestPN int64, dcidLen int) (hdrLen int, pn uint64, payload []byte, err error) {
	hdr, pn, payload, _, err := UnprotectLongFull(packet, k, largestPN)
	return len(hdr), pn, payload, err
}

// UnprotectShortFull unprotects a 1-RTT packet (it extends to the end of the datagram).
// The key phase bit is hdr[0]&0x04 of the returned header.
func UnprotectShortFull(packet []byte, k Keys, largestPN int64, dcidLen int) (hdr []byte, pn uint64, payload []byte, err error) {
	if len(packet) == 0 {
		return nil, 0, nil, ErrShort
	}
	if packet[0]&0x80 != 0 {
		return nil, 0, nil, ErrHeader
	}
	return unprotect(packet, 1+dcidLen, len(packet), k, largestPN)
}

// UnprotectShort is UnprotectShortFull reduced to header length, packet number, payload.
func UnprotectShort(packet []byte, k Keys, largestPN int64, dcidLen int) (hdrLen int, pn uint64, payload []byte, err error) {
	hdr, pn, payload, err := UnprotectShortFull(packet, k, largestPN, dcidLen)
	return len(hdr), pn, payload, err
}

// ShortKeyPhase peeks at the key phase bit of a 1-RTT packet without opening it (needed
// to select the key generation before calling UnprotectShort).
func ShortKeyPhase(packet []byte, k Keys, dcidLen int) (bit int, err error) {
	pnOff := 1 + dcidLen
	if len(packet) < pnOff+4+SampleLen {
		return 0, ErrShort
	}
	mask := k.HeaderMask(packet[pnOff+4 : pnOff+4+SampleLen])
	first := packet[0] ^ mask[0]&0x1f
	return int(first >> 2 & 1), nil
}

// ---------------------------------------------------------------------------------------
// Retry integrity (RFC 9001 5.8, RFC 9369 3.3.3)

// RetryTag computes the Retry Integrity Tag over the Retry pseudo-packet
// (ODCID length || ODCID || Retry packet without the tag).
func RetryTag(version uint32, odcid, retryWithoutTag []byte) [16]byte {
	key, nonce := retryKeyV1, retryNonceV1
	if version == Version2 {
		key, nonce = retryKeyV2, retryNonceV2
	}
	b, err := aes.NewCipher(key)
	if err != nil {
		panic(err)
	}
	g, err := cipher.NewGCM(b)
	if err != nil {
		panic(err)
	}
	pseudo := make([]byte, 0, 1+len(odcid)+len(retryWithoutTag))
	pseudo = append(pseudo, byte(len(odcid)))
	pseudo = append(pseudo, odcid...)
	pseudo = append(pseudo, retryWithoutTag...)
	var tag [16]byte
	copy(tag[:], g.Seal(nil, nonce, nil, pseudo))
	return tag
}

// ---------------------------------------------------------------------------------------
// packet numbers (RFC 9000 Appendix A)

// EncodedPacketNumberLength is the sample algorithm of RFC 9000 A.2: the minimum number
// of bytes the sender needs so that the receiver decodes fullPN, given the largest packet
// number the sender knows to be acknowledged (-1: none). A result above 4 means that the
// packet number cannot be encoded at all.
func EncodedPacketNumberLength(fullPN uint64, largestAcked int64) int {
	var numUnacked uint64
	if largestAcked < 0 {
		numUnacked = fullPN + 1
	} else {
		numUnacked = fullPN - uint64(largestAcked)
	}
	// min_bits = log2(num_unacked) + 1 (real valued); num_bytes = ceil(min_bits / 8)
	//  <=> smallest n with num_unacked <= 2^(8n-1)
	if numUnacked == 0 {
		return 1
	}
	ceilLog2 := bits.Len64(numUnacked - 1) // smallest e with numUnacked <= 2^e
	n := (ceilLog2 + 1 + 7) / 8
	if n < 1 {
		n = 1
	}
	return n
}

// EncodePacketNumber returns the `length` least significant bytes of fullPN, big endian.
func EncodePacketNumber(fullPN uint64, length int) []byte {
	b := make([]byte, length)
	for i := 0; i < length; i++ {
		b[length-1-i] = byte(fullPN >> (8 * i))
	}
	return b
}

// DecodePacketNumber is the sample algorithm of RFC 9000 A.3. largestPN is the largest
// packet number successfully processed so far in the space (-1: none, expected = 0),
// truncated the value on the wire, length its size in BYTES (1..4).
func DecodePacketNumber(largestPN int64, truncated uint64, length int) uint64 {
	expected := largestPN + 1
	win := int64(1) << (8 * uint(length))
	hwin := win / 2
	mask := win - 1
	candidate := (expected &^ mask) | int64(truncated)
	if candidate <= expected-hwin && candidate < (int64(1)<<62)-win {
		return uint64(candidate + win)
	}
	if candidate > expected+hwin && candidate >= win {
		return uint64(candidate - win)
	}
	return uint64(candidate)
}

// ---------------------------------------------------------------------------------------
// TLS key log (NSS format: "<LABEL> <client_random hex> <secret hex>")

// Key-log labels.
const (
	LabelClientEarly     = "CLIENT_EARLY_TRAFFIC_SECRET"
	LabelClientHandshake = "CLIENT_HANDSHAKE_TRAFFIC_SECRET"
	LabelServerHandshake = "SERVER_HANDSHAKE_TRAFFIC_SECRET"
	LabelClientTraffic   = "CLIENT_TRAFFIC_SECRET_0"
	LabelServerTraffic   = "SERVER_TRAFFIC_SECRET_0"
)

// KeyLogEntry collects the secrets logged for one TLS connection (one client random).
type KeyLogEntry struct {
	ClientRandom string            // lower-case hex
	Secrets      map[string][]byte // label -> secret (the last one logged)
	// All keeps every secret logged under a label: a client that is made to restart its
	// handshake with the same ClientHello (Retry) can end up with two server-side connections
	// that log different secrets under one client random.
	All map[string][][]byte
}

// ParseKeyLog parses NSS key-log text; entries are returned in order of first appearance
// of their client random. Malformed lines and comments are skipped.
func ParseKeyLog(text []byte) []KeyLogEntry {
	var out []KeyLogEntry
	idx := map[string]int{}
	for _, line := range bytes.Split(text, []byte("\n")) {
		f := strings.Fields(string(line))
		if len(f) != 3 || strings.HasPrefix(f[0], "#") {
			continue
		}
		sec, err := hex.DecodeString(f[2])
		if err != nil {
			continue
		}
		cr := strings.ToLower(f[1])
		i, ok := idx[cr]
		if !ok {
			i = len(out)
			idx[cr] = i
			out = append(out, KeyLogEntry{ClientRandom: cr, Secrets: map[string][]byte{}, All: map[string][][]byte{}})
		}
		out[i].Secrets[f[0]] = sec
		dup := false
		for _, x := range out[i].All[f[0]] {
			dup = dup || bytes.Equal(x, sec)
		}
		if !dup {
			out[i].All[f[0]] = append(out[i].All[f[0]], sec)
		}
	}
	return out
}

// Suites lists the cipher suites compatible with the logged secret size: 48-byte secrets
// mean SHA-384, hence TLS_AES_256_GCM_SHA384; 32-byte secrets leave AES-128-GCM and
// ChaCha20-Poly1305 (the caller tries both or reads the ServerHello).
func (e KeyLogEntry) Suites() []uint16 {
	for _, l := range []string{LabelServerHandshake, LabelClientHandshake, LabelServerTraffic, LabelClientTraffic} {
		if s, ok := e.Secrets[l]; ok {
			if len(s) == 48 {
				return []uint16{TLS_AES_256_GCM_SHA384}
			}
			return []uint16{TLS_AES_128_GCM_SHA256, TLS_CHACHA20_POLY1305_SHA256}
		}
	}
	return nil
}

// Keys derives the packet protection keys for the secret logged under label
// (generation 0; use GenerationKeys / NextGeneration for later key phases).
func (e KeyLogEntry) Keys(label string, version uint32, suite uint16) (Keys, bool) {
	s, ok := e.Secrets[label]
	if !ok {
		return Keys{}, false
	}
	si, ok := suiteOf(suite)
	if !ok || si.newHash().Size() != len(s) {
		return Keys{}, false
	}
	return KeysFromSecret(s, version, suite), true
}
