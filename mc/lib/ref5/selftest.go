package ref5

import (
	"bytes"
	"encoding/hex"
	"fmt"
)

// SelfTest checks the package against a few hard-coded values of RFC 9001 Appendix A and
// RFC 9369 Appendix A (Initial keys for DCID 8394c8f03e515708, the server Initial packet of
// A.3, the ChaCha20-Poly1305 short header packet and the key-update secret of A.5, the Retry
// packets of A.4). Users (the C05 harness, the wire monitor) call it once at start-up; the
// full vector set lives in the C05 harness (part "ref-vectors").
func SelfTest() error {
	dcid := mustHex("8394c8f03e515708")
	type vec struct {
		version              uint32
		cKey, cIV, cHP, sKey string
		serverHdr, serverPkt string
		chachaPkt, ku, retry string
	}
	const serverPayload = "02000000000600405a020000560303eefce7f7b37ba1d1632e96677825ddf73988cfc79825df566dc5430b9a045a1200130100002e00330024001d00209d3c940d89690b84d08a60993c144eca684d1081287c834d5311bcf32bb9da1a002b00020304"
	const chachaSecret = "9ac312a7f877468ebe69422748ad00a15443f18203a07d6060f688f30f21632b"
	vecs := []vec{
		{Version1, "1f369613dd76d5467730efcbe3b1a22d", "fa044b2f42a3fd3b46fb255c", "9f50449e04a0e810283a1e9933adedd2", "cf3a5331653c364c88f0f379b6067e37",
			"c1000000010008f067a5502a4262b50040750001",
			"cf000000010008f067a5502a4262b5004075c0d95a482cd0991cd25b0aac406a5816b6394100f37a1c69797554780bb38cc5a99f5ede4cf73c3ec2493a1839b3dbcba3f6ea46c5b7684df3548e7ddeb9c3bf9c73cc3f3bded74b562bfb19fb84022f8ef4cdd93795d77d06edbb7aaf2f58891850abbdca3d20398c276456cbc42158407dd074ee",
			"4cfe4189655e5cd55c41f69080575d7999c25a5bfb", "1223504755036d556342ee9361d253421a826c9ecdf3c7148684b36b714881f9",
			"ff000000010008f067a5502a4262b5746f6b656e04a265ba2eff4d829058fb3f0f2496ba"},
		{Version2, "8b1a0bc121284290a29e0971b5cd045d", "91f73e2351d8fa91660e909f", "45b95e15235d6f45a6b19cbcb0294ba9", "82db637861d55e1d011f19ea71d5d2a7",
			"d16b3343cf0008f067a5502a4262b50040750001",
			"dc6b3343cf0008f067a5502a4262b5004075d92faaf16f05d8a4398c47089698baeea26b91eb761d9b89237bbf87263017915358230035f7fd3945d88965cf17f9af6e16886c61bfc703106fbaf3cb4cfa52382dd16a393e42757507698075b2c984c707f0a0812d8cd5a6881eaf21ceda98f4bd23f6fe1a3e2c43edd9ce7ca84bed8521e2e140",
			"5558b1c60ae7b6b932bc27d786f4bc2bb20f2162ba", "c69374c49e3d2a9466fa689e49d476db5d0dfbc87d32ceeaa6343fd0ae4c7d88",
			"cf6b3343cf0008f067a5502a4262b5746f6b656ec8646ce8bfe33952d955543665dcc7b6"},
	}
	for _, v := range vecs {
		ck, sk := InitialKeys(v.version, dcid)
		if hex.EncodeToString(ck.Key) != v.cKey || hex.EncodeToString(ck.IV) != v.cIV || hex.EncodeToString(ck.HP) != v.cHP || hex.EncodeToString(sk.Key) != v.sKey {
			return fmt.Errorf("ref5 self-test: Initial keys of version %#x differ from the RFC vector", v.version)
		}
		pkt, err := Protect(mustHex(v.serverHdr), mustHex(serverPayload), 1, sk)
		if err != nil || !bytes.Equal(pkt, mustHex(v.serverPkt)) {
			return fmt.Errorf("ref5 self-test: server Initial packet of version %#x differs from the RFC vector", v.version)
		}
		if _, pn, pl, err := UnprotectLong(pkt, sk, -1, 0); err != nil || pn != 1 || !bytes.Equal(pl, mustHex(serverPayload)) {
			return fmt.Errorf("ref5 self-test: cannot unprotect the server Initial packet of version %#x: %v", v.version, err)
		}
		k := KeysFromSecret(mustHex(chachaSecret), v.version, TLS_CHACHA20_POLY1305_SHA256)
		if pkt, err := Protect(mustHex("4200bff4"), []byte{1}, 654360564, k); err != nil || !bytes.Equal(pkt, mustHex(v.chachaPkt)) {
			return fmt.Errorf("ref5 self-test: ChaCha20 short header packet of version %#x differs from the RFC vector", v.version)
		}
		if ku := NextGeneration(mustHex(chachaSecret), v.version, TLS_CHACHA20_POLY1305_SHA256); hex.EncodeToString(ku) != v.ku {
			return fmt.Errorf("ref5 self-test: key update secret of version %#x differs from the RFC vector", v.version)
		}
		r := mustHex(v.retry)
		if tag := RetryTag(v.version, dcid, r[:len(r)-16]); !bytes.Equal(tag[:], r[len(r)-16:]) {
			return fmt.Errorf("ref5 self-test: Retry integrity tag of version %#x differs from the RFC vector", v.version)
		}
	}
	for _, c := range []struct {
		largest int64
		trunc   uint64
		n       int
		want    uint64
	}{{0xa82f30ea, 0x9b32, 2, 0xa82f9b32}, {-1, 0, 1, 0}, {1<<62 - 2, 0xff, 1, 1<<62 - 1}} { // first: the example of RFC 9000 A.3
		if got := DecodePacketNumber(c.largest, c.trunc, c.n); got != c.want {
			return fmt.Errorf("ref5 self-test: DecodePacketNumber(%d, %#x, %d) = %d, want %d", c.largest, c.trunc, c.n, got, c.want)
		}
	}
	// RFC 9000 A.2 example: full_pn 0xac5c02 with largest_acked 0xabe8b3 needs 16 bits; 0xace8fe needs 18 bits -> 3 bytes
	if EncodedPacketNumberLength(0xac5c02, 0xabe8b3) != 2 || EncodedPacketNumberLength(0xace8fe, 0xabe8b3) != 3 {
		return fmt.Errorf("ref5 self-test: EncodedPacketNumberLength fails the RFC 9000 A.2 examples")
	}
	return nil
}
