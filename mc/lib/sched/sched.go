// Package sched is the E3 engine: it enumerates the interleavings of a few real goroutines
// on one real component at quiescence granularity. Every thread is a list of steps (API
// calls, events); the explorer chooses which thread performs its next step, lets it run
// inside a testing/synctest bubble until every goroutine is durably blocked or done
// (synctest.Wait), and repeats. A step that blocks (OpenStreamSync waiting for credit, a
// Read without data) simply stays blocked until another thread's step wakes it up; "no
// thread can take a step and some are still blocked" is a deadlock / lost wake-up.
// All orders are enumerated depth-first by re-executing from a fresh scenario.
package sched

import (
	"fmt"
	"os"
	"runtime"
	"sync"
	"testing"
	"testing/synctest"

	"github.com/refraction-networking/uquic/internal/verifmc/explore"
)

// Thread is a sequence of steps executed in order by one goroutine.
type Thread struct {
	Name  string
	Steps []func()
}

// Scenario is one fresh instance of the component under test with its threads.
type Scenario struct {
	Threads []Thread
	// Observe, if set, is told after every step which threads are durably blocked inside
	// their current step (e.g. to record the order in which callers started to wait).
	Observe func(blocked []string)
	// AfterStep, if set, is evaluated after every step has run to quiescence.
	AfterStep func() *explore.Fail
	// Final is evaluated when no thread can take a step any more. blocked lists the threads
	// that are still inside a step.
	Final func(blocked []string) *explore.Fail
	// Cleanup releases whatever is still blocked so that the bubble can terminate.
	Cleanup func()
	// AfterCleanup is asked for a verdict when threads are still inside a step after Cleanup
	// (the bubble cannot terminate then).
	AfterCleanup func(stuck []string) *explore.Fail
	// Outcome classifies the execution (vacuity accounting).
	Outcome func() string
}

type thread struct {
	Thread
	gate      chan struct{}
	next      int // index of the next step to run (advanced by the thread itself)
	startedAt int // index of the step that was granted last
	done      bool
	running   bool
	atPoint   bool // parked at a lock point inside its current step
}

// registry of the goroutines that are scheduler threads (lock-point preemption)
var (
	regMu sync.Mutex
	reg   = map[uint64]*thread{}
)

func goid() uint64 {
	var buf [64]byte
	b := buf[:runtime.Stack(buf[:], false)]
	// "goroutine 123 [running]:"
	var id uint64
	for _, c := range b[len("goroutine "):] {
		if c < '0' || c > '9' {
			break
		}
		id = id*10 + uint64(c-'0')
	}
	return id
}

// Point is the lock-point hook (install it as vsync.Hook): a scheduler thread that is about
// to acquire a lock parks here until the explorer lets it continue. Other goroutines pass.
func Point() {
	regMu.Lock()
	th := reg[goid()]
	regMu.Unlock()
	if th == nil {
		return
	}
	th.atPoint = true
	<-th.gate
}

// Result of one exploration.
type Result struct {
	Executions int64
	Steps      int64
	Outcomes   map[string]int64
	Fail       *explore.Fail
	FailTrace  []string
	FailChoice []int
	Capped     bool
}

// runOne executes one schedule given by the chooser.
func runOne(t *testing.T, mk func() *Scenario, c *explore.Chooser, onFail func(*explore.Fail, []string)) (fail *explore.Fail, trace []string, steps int64, outcome string) {
	synctest.Test(t, func(t *testing.T) {
		sc := mk()
		ths := make([]*thread, len(sc.Threads))
		for i, th := range sc.Threads {
			ths[i] = &thread{Thread: th, gate: make(chan struct{})}
		}
		finished := make(chan int, len(ths))
		for i, th := range ths {
			go func(i int, th *thread) {
				id := goid()
				regMu.Lock()
				reg[id] = th
				regMu.Unlock()
				defer func() {
					regMu.Lock()
					delete(reg, id)
					regMu.Unlock()
				}()
				for range th.Steps {
					<-th.gate
					th.Steps[th.next]()
					th.next++
				}
				finished <- i
			}(i, th)
		}
		last := -1
		for {
			synctest.Wait()
			// classify: a thread is enabled if it has steps left and is not inside one
			for len(finished) > 0 {
				ths[<-finished].done = true
			}
			var enabled []int
			var blocked []string
			for i, th := range ths {
				if th.done {
					continue
				}
				if th.running && th.next == th.startedAt && !th.atPoint {
					// still inside the step that was started
					blocked = append(blocked, th.Name)
					continue
				}
				if !th.atPoint {
					th.running = false
				}
				enabled = append(enabled, i)
			}
			if sc.Observe != nil {
				sc.Observe(blocked)
			}
			if sc.AfterStep != nil && fail == nil {
				if f := sc.AfterStep(); f != nil {
					fail = f
				}
			}
			if len(enabled) == 0 || fail != nil {
				if fail == nil && sc.Final != nil {
					fail = sc.Final(blocked)
				}
				break
			}
			// canonical order: the thread that ran last first (continuing it is never a
			// preemption); switching away from it while it could continue costs one preemption
			cost := 0
			for j, i := range enabled {
				if i == last && ths[i].atPoint {
					enabled[0], enabled[j] = enabled[j], enabled[0]
					cost = 1
					break
				}
			}
			k := c.ChooseCost(len(enabled), cost)
			th := ths[enabled[k]]
			last = enabled[k]
			if th.atPoint {
				trace = append(trace, fmt.Sprintf("%s.%d+", th.Name, th.next))
				th.atPoint = false
			} else {
				trace = append(trace, fmt.Sprintf("%s.%d", th.Name, th.next))
				th.running = true
				th.startedAt = th.next
			}
			steps++
			th.gate <- struct{}{}
		}
		if sc.Outcome != nil {
			outcome = sc.Outcome()
		}
		if fail != nil && onFail != nil {
			// recorded before the clean-up: a goroutine that the oracle found blocked for good
			// keeps the bubble from terminating and the process dies in synctest's deadlock panic
			onFail(fail, trace)
		}
		if sc.Cleanup != nil {
			sc.Cleanup()
		}
		// let released goroutines finish: every remaining step of every thread is granted (after
		// Cleanup they all return at once); a step that still blocks is a harness error and ends
		// in synctest's deadlock panic
		for {
			synctest.Wait()
			progressed := false
			for _, th := range ths {
				if th.atPoint {
					th.atPoint = false
					th.gate <- struct{}{}
					progressed = true
					continue
				}
				inside := th.running && th.next == th.startedAt
				if th.next < len(th.Steps) && !inside {
					th.running, th.startedAt = true, th.next
					th.gate <- struct{}{}
					progressed = true
				}
			}
			if !progressed {
				break
			}
		}
		if sc.AfterCleanup != nil && fail == nil {
			var stuck []string
			for _, th := range ths {
				if th.running && th.next == th.startedAt && th.next < len(th.Steps) && !th.atPoint {
					stuck = append(stuck, th.Name)
				}
			}
			if len(stuck) > 0 {
				if fail = sc.AfterCleanup(stuck); fail != nil && onFail != nil {
					onFail(fail, trace)
				}
			}
		}
		if os.Getenv("VERIF_DEBUG") != "" {
			buf := make([]byte, 1<<20)
			os.Stderr.Write(buf[:runtime.Stack(buf, true)])
		}
	})
	return
}

// Explore enumerates every schedule of the scenario (all choices are cost 0: the
// enumeration is exhaustive unless maxExec caps it).
func Explore(t *testing.T, e explore.Env, maxExec int64, mk func() *Scenario) Result {
	return ExploreBounded(t, e, -1, maxExec, mk)
}

// ExploreBounded is Explore with a bound on preemptions at lock points (only meaningful
// when the code under test was built against vsync and vsync.Hook = Point); -1 = unbounded.
func ExploreBounded(t *testing.T, e explore.Env, maxPreempt int, maxExec int64, mk func() *Scenario) Result {
	res := Result{Outcomes: map[string]int64{}}
	stop := func() bool { return e.Expired() || res.Fail != nil }
	r := explore.EnumerateChoices(maxPreempt, maxExec, stop, func(c *explore.Chooser) {
		var noted *explore.Fail
		var notedTrace []string
		defer func() {
			// A goroutine that the oracle found blocked for good keeps the bubble from
			// terminating: synctest panics with "deadlock". The verdict was already reached.
			if x := recover(); x != nil {
				if noted == nil {
					panic(x)
				}
				res.Fail, res.FailTrace = noted, notedTrace
				res.FailChoice = append([]int{}, c.Trace...)
			}
		}()
		f, trace, steps, outcome := runOne(t, mk, c, func(f *explore.Fail, trace []string) {
			noted, notedTrace = f, trace
			explore.NoteCurrentChoices(e, f.Key, f.What+" | schedule: "+fmt.Sprint(trace), append([]int{}, c.Trace...))
		})
		res.Steps += steps
		if outcome != "" {
			res.Outcomes[outcome]++
		}
		if f != nil {
			res.Fail, res.FailTrace = f, trace
			res.FailChoice = append([]int{}, c.Trace...)
		}
	})
	res.Executions = r.Executions
	res.Capped = r.Capped && res.Fail == nil
	return res
}

// Replay executes one recorded schedule.
func Replay(t *testing.T, mk func() *Scenario, choices []int) (f *explore.Fail, trace []string) {
	c := explore.NewChooser(choices)
	var noted *explore.Fail
	var notedTrace []string
	defer func() {
		if x := recover(); x != nil {
			if noted == nil {
				panic(x)
			}
			f, trace = noted, notedTrace
		}
	}()
	f, trace, _, _ = runOne(t, mk, c, func(f *explore.Fail, tr []string) { noted, notedTrace = f, tr })
	return f, trace
}
