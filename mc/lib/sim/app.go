package sim

import (
	"context"
	"errors"
	"fmt"
	"io"
	"strings"

	quic "github.com/refraction-networking/uquic"
)

// Pattern is the byte at position i of test stream `stream`.
func Pattern(stream, i int) byte { return byte((i*7 + stream*53 + 11) % 251) }

// Data returns n pattern bytes of a stream.
func Data(stream, n int) []byte {
	b := make([]byte, n)
	for i := range b {
		b[i] = Pattern(stream, i)
	}
	return b
}

// ReadAll reads rd to EOF and checks every byte against the pattern of `stream`; it
// returns a description of the first discrepancy (empty if none) and the error that ended
// the read (nil for a clean EOF at exactly size bytes).
func ReadAll(rd io.Reader, stream, size, bufSize int) (problem string, err error) {
	buf := make([]byte, bufSize)
	total := 0
	for {
		n, e := rd.Read(buf)
		for i := 0; i < n; i++ {
			if total+i >= size {
				return fmt.Sprintf("byte %d delivered beyond the %d bytes written", total+i, size), nil
			}
			if buf[i] != Pattern(stream, total+i) {
				return fmt.Sprintf("byte %d is %#x, written %#x", total+i, buf[i], Pattern(stream, total+i)), nil
			}
		}
		total += n
		if e == io.EOF {
			if total != size {
				return fmt.Sprintf("io.EOF after %d of %d bytes", total, size), nil
			}
			return "", nil
		}
		if e != nil {
			return "", e
		}
		if n == 0 {
			return "Read returned (0, nil)", nil
		}
	}
}

// ErrClass reduces an error to a stable class name for violation keys.
func ErrClass(err error) string {
	if err == nil {
		return "nil"
	}
	var te *quic.TransportError
	if errors.As(err, &te) {
		side := "local"
		if te.Remote {
			side = "remote"
		}
		return fmt.Sprintf("%s(%s)", te.ErrorCode.String(), side)
	}
	var ae *quic.ApplicationError
	if errors.As(err, &ae) {
		side := "local"
		if ae.Remote {
			side = "remote"
		}
		return fmt.Sprintf("APPLICATION_ERROR_%#x(%s)", uint64(ae.ErrorCode), side)
	}
	var it *quic.IdleTimeoutError
	if errors.As(err, &it) {
		return "IDLE_TIMEOUT"
	}
	var ht *quic.HandshakeTimeoutError
	if errors.As(err, &ht) {
		return "HANDSHAKE_TIMEOUT"
	}
	var sr *quic.StatelessResetError
	if errors.As(err, &sr) {
		return "STATELESS_RESET"
	}
	var vn *quic.VersionNegotiationError
	if errors.As(err, &vn) {
		return "VERSION_NEGOTIATION_ERROR"
	}
	var se *quic.StreamError
	if errors.As(err, &se) {
		return fmt.Sprintf("STREAM_ERROR_%#x", uint64(se.ErrorCode))
	}
	if errors.Is(err, context.DeadlineExceeded) {
		return "context-deadline"
	}
	if errors.Is(err, context.Canceled) {
		return "context-canceled"
	}
	s := err.Error()
	if i := strings.IndexAny(s, ":("); i > 0 {
		s = s[:i]
	}
	if len(s) > 40 {
		s = s[:40]
	}
	return strings.TrimSpace(s)
}

// EchoServer accepts connections on ln until ctx ends; on every connection it echoes every
// client-initiated bidirectional stream (read to EOF, write back, close) and, if uniSize >=
// 0, opens one unidirectional stream carrying uniSize pattern bytes (stream number 900).
// Problems are reported through report.
func EchoServer(ctx context.Context, ln *quic.Listener, uniSize int, report func(string)) (conns func() []*quic.Conn, done <-chan struct{}) {
	d := make(chan struct{})
	var list []*quic.Conn
	ch := make(chan *quic.Conn, 16)
	go func() {
		defer close(d)
		sub := make(chan struct{}, 64)
		n := 0
		for {
			c, err := ln.Accept(ctx)
			if err != nil {
				break
			}
			ch <- c
			n++
			go func() {
				defer func() { sub <- struct{}{} }()
				if uniSize >= 0 {
					go func() {
						s, err := c.OpenUniStreamSync(ctx)
						if err != nil {
							return
						}
						WriteScratch(s, Data(900, uniSize))
						s.Close()
					}()
				}
				for {
					s, err := c.AcceptStream(ctx)
					if err != nil {
						return
					}
					go func() {
						b, err := io.ReadAll(s)
						if err != nil {
							s.CancelWrite(1)
							return
						}
						WriteScratch(s, b)
						s.Close()
					}()
				}
			}()
		}
		for i := 0; i < n; i++ {
			<-sub
		}
	}()
	return func() []*quic.Conn {
		for {
			select {
			case c := <-ch:
				list = append(list, c)
			default:
				return list
			}
		}
	}, d
}

// EchoOnce performs one bidirectional echo of size bytes on a new stream of conn (pattern
// stream number = plan) and, if uniSize >= 0, reads the server's unidirectional stream.
func EchoOnce(ctx context.Context, conn *quic.Conn, plan, size, uniSize int) error {
	s, err := conn.OpenStreamSync(ctx)
	if err != nil {
		return fmt.Errorf("open stream: %w", err)
	}
	werr := make(chan error, 1)
	go func() {
		_, err := WriteScratch(s, Data(plan, size))
		if err == nil {
			err = s.Close()
		}
		werr <- err
	}()
	problem, err := ReadAll(s, plan, size, 1024)
	if err != nil {
		return fmt.Errorf("read echo: %w", err)
	}
	if problem != "" {
		return fmt.Errorf("echo corrupted: %s", problem)
	}
	if err := <-werr; err != nil {
		return fmt.Errorf("write: %w", err)
	}
	if uniSize >= 0 {
		u, err := conn.AcceptUniStream(ctx)
		if err != nil {
			return fmt.Errorf("accept uni: %w", err)
		}
		problem, err := ReadAll(u, 900, uniSize, 512)
		if err != nil {
			return fmt.Errorf("read uni: %w", err)
		}
		if problem != "" {
			return fmt.Errorf("uni stream corrupted: %s", problem)
		}
	}
	return nil
}

// EchoOnceNoUni is EchoOnce with a small payload and no unidirectional stream.
func EchoOnceNoUni(ctx context.Context, conn *quic.Conn, plan int) error {
	return EchoOnce(ctx, conn, plan, 600, -1)
}

// WriteScratch writes p the way an application with a reused buffer does: from a scratch copy
// that is overwritten as soon as Write returns (io.Writer: "Write must not retain p"). A
// stream that kept a reference to the caller's slice would then send 0xEE bytes.
func WriteScratch(w io.Writer, p []byte) (int, error) {
	scratch := append([]byte(nil), p...)
	n, err := w.Write(scratch)
	for i := range scratch {
		scratch[i] = 0xEE
	}
	return n, err
}
