package sim

import (
	"context"
	"time"

	tls "github.com/refraction-networking/utls"
	quic "github.com/refraction-networking/uquic"
	"github.com/refraction-networking/uquic/internal/verifmc/wireobs"
)

// Flight is what a silent on-path observer recorded of one dial towards a peer that
// never answers: the datagrams of the first flight (all sent in the first virtual
// instant) and the later PTO retransmissions.
type Flight struct {
	First   []Event
	Retrans []Event
	DialErr error
}

// CaptureFlight dials towards an address nobody listens on and records everything the
// client sends within `wait` of virtual time.
func CaptureFlight(w *World, d Dialer, conf *quic.Config, wait time.Duration) Flight {
	return CaptureFlightTLS(w, d, w.ClientTLS(), conf, wait)
}

// CaptureFlightTLS is CaptureFlight with the caller's tls.Config (e.g. another ServerName).
func CaptureFlightTLS(w *World, d Dialer, tlsConf *tls.Config, conf *quic.Config, wait time.Duration) Flight {
	ctx, cancel := context.WithTimeout(context.Background(), wait)
	defer cancel()
	before := len(w.Router.Log())
	conn, err := d.Dial(ctx, w.ServerAddr, tlsConf, conf)
	if conn != nil {
		conn.CloseWithError(0, "")
	}
	var f Flight
	f.DialErr = err
	log := w.Router.Log()[before:]
	var t0 time.Duration = -1
	for _, e := range log {
		if e.Dir != C2S || e.Injected {
			continue
		}
		if t0 < 0 {
			t0 = e.T
		}
		if e.T == t0 {
			f.First = append(f.First, e)
		} else {
			f.Retrans = append(f.Retrans, e)
		}
	}
	return f
}

// ObservedInitial is one client Initial packet as the independent observer sees it.
type ObservedInitial struct {
	Datagram     int // index within the event list
	DatagramLen  int
	TrailingZero int // bytes after the last QUIC packet of the datagram (all zero)
	Pkt          *wireobs.LongPacket
	Frames       []wireobs.Frame
}

// ObserveInitials removes Initial protection from every client Initial packet of the
// events, the way a passive observer does: keys from the first packet's DCID, packet
// numbers recovered per RFC 9000 A.3 from the largest one processed so far.
func ObserveInitials(events []Event) ([]ObservedInitial, error) {
	var out []ObservedInitial
	var keys *wireobs.Keys
	largest := int64(-1)
	for di, e := range events {
		pkts, rest, err := wireobs.SplitDatagram(e.Data)
		if err != nil {
			return out, &ObserveError{di, "datagram does not parse as long-header packets: " + err.Error()}
		}
		for _, b := range rest {
			if b != 0 {
				return out, &ObserveError{di, "bytes after the last packet of the datagram are neither a packet nor zero padding"}
			}
		}
		if len(pkts) == 0 {
			return out, &ObserveError{di, "no long-header packet in datagram"}
		}
		for _, p := range pkts {
			if p.Type != 0 {
				continue
			}
			if keys == nil {
				ck, _, err := wireobs.InitialKeys(p.Version, p.DCID)
				if err != nil {
					return out, &ObserveError{di, err.Error()}
				}
				keys = &ck
			}
			if err := p.Unprotect(*keys, largest); err != nil {
				return out, &ObserveError{di, "Initial packet is not decryptable with the standard Initial keys and RFC 9000 A.3 packet number recovery: " + err.Error()}
			}
			if int64(p.PN) > largest {
				largest = int64(p.PN)
			}
			fr, err := wireobs.Frames(p.Payload)
			if err != nil {
				return out, &ObserveError{di, "Initial payload: " + err.Error()}
			}
			out = append(out, ObservedInitial{Datagram: di, DatagramLen: len(e.Data), TrailingZero: len(rest), Pkt: p, Frames: fr})
		}
	}
	return out, nil
}

// ObserveError says which datagram the observer could not process.
type ObserveError struct {
	Datagram int
	Msg      string
}

func (e *ObserveError) Error() string { return e.Msg }
