// Package sim is the E2 world: client and server endpoints of the real implementation
// inside one testing/synctest bubble, joined by a fault-injecting router over
// testutils/simnet connections. Every datagram is recorded; what happens to datagram #i
// of a direction is decided by a static fault map (an explorer choice).
package sim

import (
	"fmt"
	"net"
	"sort"
	"sync"
	"time"

	"github.com/refraction-networking/uquic/testutils/simnet"
)

type Dir int

const (
	C2S Dir = 0
	S2C Dir = 1
)

func (d Dir) String() string {
	if d == C2S {
		return "c>s"
	}
	return "s>c"
}

// Fate is what the network does to one datagram.
type Fate int

const (
	Deliver Fate = iota
	Drop
	Dup       // delivered twice, the copy 1 ms later
	Delay     // delayed by 1.5 RTT (reordering)
	DelayLong // delayed by 10 RTT
	Flip0     // bit flip in byte 0
	Flip7     // bit flip in byte 7
	FlipMid   // bit flip in the middle byte
	FlipLast  // bit flip in the last byte
	Trunc1    // truncated to 1 byte
	Trunc20   // truncated to 20 bytes
	TruncLast // last byte removed
	NumFates
	// Outages (not part of the per-datagram fate alphabets above): this datagram and
	// everything sent in the same direction during the following period is lost; the log
	// records every datagram lost that way with fate Drop.
	Outage100ms Fate = 100
	Outage1s    Fate = 101
	// FlipSCID flips a bit in the first byte of the source connection ID of a long-header
	// packet (in the middle byte if the datagram has a short header or an empty SCID): the
	// one header field an endpoint learns from an unauthenticated first packet.
	FlipSCID Fate = 102
)

var fateNames = [...]string{"deliver", "drop", "dup", "delay", "delaylong", "flip0", "flip7", "flipmid", "fliplast", "trunc1", "trunc20", "trunclast"}

func (f Fate) String() string {
	if int(f) < len(fateNames) {
		return fateNames[f]
	}
	switch f {
	case Outage100ms:
		return "outage100ms"
	case Outage1s:
		return "outage1s"
	case FlipSCID:
		return "flipscid"
	}
	return fmt.Sprintf("fate%d", int(f))
}

// Slot names datagram #Idx (0-based) of a direction.
type Slot struct {
	Dir Dir `json:"d"`
	Idx int `json:"i"`
}

// Fault is one non-default fate.
type Fault struct {
	Slot
	Fate Fate `json:"f"`
}

func (f Fault) String() string { return fmt.Sprintf("%v#%d=%v", f.Dir, f.Idx, f.Fate) }

// FaultMap is a static schedule: slot -> fate; absent = deliver.
type FaultMap []Fault

func (m FaultMap) String() string {
	s := "["
	for i, f := range m {
		if i > 0 {
			s += " "
		}
		s += f.String()
	}
	return s + "]"
}

func (m FaultMap) lookup(s Slot) Fate {
	for _, f := range m {
		if f.Slot == s {
			return f.Fate
		}
	}
	return Deliver
}

// Event is one datagram seen by the router.
type Event struct {
	Dir      Dir
	Idx      int // ordinal within its direction; -1 for injected datagrams
	T        time.Duration
	Fate     Fate
	Data     []byte // as sent
	Injected bool
	From, To net.Addr
}

// Router implements simnet.Router with per-datagram fates, FIFO delivery per direction and
// a complete log.
type Router struct {
	mu      sync.Mutex
	nodes   map[string]simnet.PacketReceiver
	server  string // server address; everything sent to it is C2S
	Latency time.Duration
	Faults  FaultMap
	log     []Event
	full    []Event // every datagram since the router was created (StartPhase does not restart it)
	count   [2]int
	lastAt  [2]time.Time
	start   time.Time
	frozen  bool
	bytes   [2]int
	// OnSend, if set, sees every datagram before its fate is applied (attacker / observer
	// hook). It runs with the router lock released and may call Inject.
	OnSend func(ev Event)
	// Blackhole drops everything sent in the given direction from now on.
	blackhole [2]bool
	outageUntil [2]time.Duration // since start; see Outage100ms
}

func NewRouter(server net.Addr, latency time.Duration, faults FaultMap) *Router {
	return &Router{nodes: map[string]simnet.PacketReceiver{}, server: server.String(), Latency: latency, Faults: faults, start: time.Now()}
}

func (r *Router) AddNode(addr net.Addr, rc simnet.PacketReceiver) {
	r.mu.Lock()
	r.nodes[addr.String()] = rc
	r.mu.Unlock()
}

func (r *Router) RemoveNode(addr net.Addr) {
	r.mu.Lock()
	delete(r.nodes, addr.String())
	r.mu.Unlock()
}

// SetBlackhole makes the path dead (or alive again) in one direction.
func (r *Router) SetBlackhole(d Dir, on bool) {
	r.mu.Lock()
	r.blackhole[d] = on
	r.mu.Unlock()
}

func (r *Router) dirOf(p simnet.Packet) Dir {
	if p.To.String() == r.server {
		return C2S
	}
	return S2C
}

// FlipSCIDPos is the index of the byte the fate FlipSCID damages.
func FlipSCIDPos(d []byte) int {
	n := len(d)
	if n > 7 && d[0]&0x80 != 0 {
		if p := 6 + int(d[5]); p+1 < n && d[p] > 0 {
			return p + 1
		}
	}
	return n / 2
}

func mutate(data []byte, f Fate) []byte {
	d := append([]byte(nil), data...)
	n := len(d)
	flip := func(i int) {
		if i >= 0 && i < n {
			d[i] ^= 0x04
		}
	}
	switch f {
	case Flip0:
		flip(0)
	case Flip7:
		flip(7)
	case FlipMid:
		flip(n / 2)
	case FlipLast:
		flip(n - 1)
	case FlipSCID:
		flip(FlipSCIDPos(d))
	case Trunc1:
		if n > 1 {
			d = d[:1]
		}
	case Trunc20:
		if n > 20 {
			d = d[:20]
		}
	case TruncLast:
		if n > 1 {
			d = d[:n-1]
		}
	}
	return d
}

// SendPacket implements simnet.Router.
func (r *Router) SendPacket(p simnet.Packet) error {
	r.mu.Lock()
	dir := r.dirOf(p)
	idx := r.count[dir]
	r.count[dir]++
	r.bytes[dir] += len(p.Data)
	fate := r.Faults.lookup(Slot{dir, idx})
	switch fate {
	case Outage100ms:
		r.outageUntil[dir] = time.Since(r.start) + 100*time.Millisecond
	case Outage1s:
		r.outageUntil[dir] = time.Since(r.start) + time.Second
	}
	if r.blackhole[dir] || time.Since(r.start) < r.outageUntil[dir] {
		fate = Drop
	}
	ev := Event{Dir: dir, Idx: idx, T: time.Since(r.start), Fate: fate, Data: append([]byte(nil), p.Data...), From: p.From, To: p.To}
	if !r.frozen {
		r.log = append(r.log, ev)
	}
	r.full = append(r.full, ev)
	hook := r.OnSend
	r.mu.Unlock()
	if hook != nil {
		hook(ev)
	}
	switch fate {
	case Drop:
		return nil
	case Dup:
		r.deliver(dir, p, 0, true)
		cp := p
		cp.Data = append([]byte(nil), p.Data...)
		r.deliver(dir, cp, time.Millisecond, false)
	case Delay:
		r.deliver(dir, p, 3*r.Latency, false)
	case DelayLong:
		r.deliver(dir, p, 20*r.Latency, false)
	case Deliver:
		r.deliver(dir, p, 0, true)
	default:
		p.Data = mutate(p.Data, fate)
		r.deliver(dir, p, 0, true)
	}
	return nil
}

// deliver schedules the hand-over to the receiver. In-order datagrams of one direction
// keep their order (strictly increasing delivery instants).
func (r *Router) deliver(dir Dir, p simnet.Packet, extra time.Duration, fifo bool) {
	r.mu.Lock()
	rc := r.nodes[p.To.String()]
	at := time.Now().Add(r.Latency + extra)
	if fifo {
		if !at.After(r.lastAt[dir]) {
			at = r.lastAt[dir].Add(time.Nanosecond)
		}
		r.lastAt[dir] = at
	}
	r.mu.Unlock()
	if rc == nil {
		return
	}
	time.AfterFunc(time.Until(at), func() { rc.RecvPacket(p) })
}

// Inject delivers an attacker-made datagram to `to` (claiming to come from `from`) after
// the normal latency plus extra.
func (r *Router) Inject(from, to net.Addr, data []byte, extra time.Duration) {
	p := simnet.Packet{From: from, To: to, Data: append([]byte(nil), data...)}
	r.mu.Lock()
	dir := r.dirOf(p)
	if !r.frozen {
		r.log = append(r.log, Event{Dir: dir, Idx: -1, T: time.Since(r.start), Data: p.Data, Injected: true, From: from, To: to})
	}
	r.full = append(r.full, Event{Dir: dir, Idx: -1, T: time.Since(r.start), Data: p.Data, Injected: true, From: from, To: to})
	r.mu.Unlock()
	r.deliver(dir, p, extra, false)
}

// StartPhase restarts the per-direction ordinals (and the log) and installs a fault map:
// used by scenarios whose faults apply to a later connection only.
func (r *Router) StartPhase(faults FaultMap) {
	r.mu.Lock()
	r.count = [2]int{}
	r.bytes = [2]int{}
	r.log = nil
	r.Faults = faults
	r.mu.Unlock()
}

// StartTime is the instant event times are measured from.
func (r *Router) StartTime() time.Time { return r.start }

// Log returns a copy of the datagram log.
func (r *Router) Log() []Event {
	r.mu.Lock()
	defer r.mu.Unlock()
	return append([]Event(nil), r.log...)
}

// SetOnSend installs the observer hook while traffic may already be flowing.
func (r *Router) SetOnSend(f func(ev Event)) {
	r.mu.Lock()
	r.OnSend = f
	r.mu.Unlock()
}

// FullLog returns every datagram seen since the router was created, across phases (for the
// passive wire monitor).
func (r *Router) FullLog() []Event {
	r.mu.Lock()
	defer r.mu.Unlock()
	return append([]Event(nil), r.full...)
}

// Count returns how many datagrams were sent in a direction so far.
func (r *Router) Count(d Dir) int { r.mu.Lock(); defer r.mu.Unlock(); return r.count[d] }

// Bytes returns how many bytes were sent in a direction so far.
func (r *Router) Bytes(d Dir) int { r.mu.Lock(); defer r.mu.Unlock(); return r.bytes[d] }

// Transcript is a compact rendering of the log: direction, size and first byte per datagram.
func (r *Router) Transcript() []string {
	var out []string
	for _, e := range r.Log() {
		fb := byte(0)
		if len(e.Data) > 0 {
			fb = e.Data[0]
		}
		s := fmt.Sprintf("%v#%d len=%d b0=%02x", e.Dir, e.Idx, len(e.Data), fb&0xf0)
		if e.Fate != Deliver {
			s += " " + e.Fate.String()
		}
		out = append(out, s)
	}
	return out
}

// AllSingleFaults enumerates every fault map with exactly one fault among the first n[dir]
// datagrams of each direction, over the given fates.
func AllSingleFaults(n [2]int, fates []Fate) []FaultMap {
	var out []FaultMap
	for d := C2S; d <= S2C; d++ {
		for i := 0; i < n[d]; i++ {
			for _, f := range fates {
				out = append(out, FaultMap{{Slot{d, i}, f}})
			}
		}
	}
	return out
}

// AllFaultMaps enumerates every fault map with at most k faults among the first n[dir]
// datagrams of each direction (slots in canonical order, no slot twice).
func AllFaultMaps(n [2]int, fates []Fate, k int) []FaultMap {
	var slots []Slot
	for d := C2S; d <= S2C; d++ {
		for i := 0; i < n[d]; i++ {
			slots = append(slots, Slot{d, i})
		}
	}
	sort.Slice(slots, func(a, b int) bool {
		if slots[a].Idx != slots[b].Idx {
			return slots[a].Idx < slots[b].Idx
		}
		return slots[a].Dir < slots[b].Dir
	})
	out := []FaultMap{{}}
	var rec func(start int, cur FaultMap)
	rec = func(start int, cur FaultMap) {
		if len(cur) == k {
			return
		}
		for i := start; i < len(slots); i++ {
			for _, f := range fates {
				m := append(append(FaultMap{}, cur...), Fault{slots[i], f})
				out = append(out, m)
				rec(i+1, m)
			}
		}
	}
	rec(0, nil)
	return out
}
