package sim

import (
	"context"
	"crypto/ecdsa"
	"crypto/elliptic"
	"crypto/rand"
	"crypto/x509"
	"crypto/x509/pkix"
	"fmt"
	"math/big"
	mrand "math/rand"
	"net"
	"strings"
	"sync"
	"sync/atomic"
	"testing"
	"testing/cryptotest"
	"testing/synctest"
	"time"

	quic "github.com/refraction-networking/uquic"
	"github.com/refraction-networking/uquic/testutils/simnet"
	tls "github.com/refraction-networking/utls"
)

// ALPN used by every scenario (the browser parrots offer h3).
const ALPN = "h3"

// OneWay is the one-way latency of the simulated path (RTT = 2*OneWay).
const OneWay = 5 * time.Millisecond

// Certs is a CA + leaf chain (ECDSA P-256: the browser parrots do not offer Ed25519).
type Certs struct {
	Pool  *x509.CertPool
	Leaf  tls.Certificate
	Long  tls.Certificate // leaf with a long chain (multi-packet server flight)
	mutex sync.Mutex
}

var (
	certsOnce sync.Once
	certs     *Certs
)

func mustCert(tmpl, parent *x509.Certificate, pub *ecdsa.PublicKey, priv *ecdsa.PrivateKey) []byte {
	der, err := x509.CreateCertificate(rand.Reader, tmpl, parent, pub, priv)
	if err != nil {
		panic(err)
	}
	return der
}

// GetCerts generates the process-wide certificates (validity 1990..2100 so that they are
// valid under the bubble's fake clock, which starts in 2000).
func GetCerts() *Certs {
	certsOnce.Do(func() {
		nb := time.Date(1990, 1, 1, 0, 0, 0, 0, time.UTC)
		na := time.Date(2100, 1, 1, 0, 0, 0, 0, time.UTC)
		caKey, _ := ecdsa.GenerateKey(elliptic.P256(), rand.Reader)
		caT := &x509.Certificate{SerialNumber: big.NewInt(1), Subject: pkix.Name{CommonName: "verif CA"}, NotBefore: nb, NotAfter: na,
			IsCA: true, BasicConstraintsValid: true, KeyUsage: x509.KeyUsageCertSign | x509.KeyUsageDigitalSignature}
		caDER := mustCert(caT, caT, &caKey.PublicKey, caKey)
		caCert, _ := x509.ParseCertificate(caDER)
		leafKey, _ := ecdsa.GenerateKey(elliptic.P256(), rand.Reader)
		leafT := &x509.Certificate{SerialNumber: big.NewInt(2), Subject: pkix.Name{CommonName: "server.verif"}, NotBefore: nb, NotAfter: na,
			DNSNames: []string{"server.verif", "localhost"}, IPAddresses: []net.IP{net.IPv4(10, 0, 0, 1)},
			KeyUsage: x509.KeyUsageDigitalSignature, ExtKeyUsage: []x509.ExtKeyUsage{x509.ExtKeyUsageServerAuth}}
		leafDER := mustCert(leafT, caCert, &leafKey.PublicKey, caKey)
		pool := x509.NewCertPool()
		pool.AddCert(caCert)
		c := &Certs{Pool: pool, Leaf: tls.Certificate{Certificate: [][]byte{leafDER}, PrivateKey: leafKey}}
		// long chain: CA -> i1 -> i2 -> ... -> leaf, with bulky subject fields
		parent, parentKey := caCert, caKey
		var chain [][]byte
		for i := 0; i < 5; i++ {
			k, _ := ecdsa.GenerateKey(elliptic.P256(), rand.Reader)
			t := &x509.Certificate{SerialNumber: big.NewInt(int64(10 + i)), Subject: pkix.Name{CommonName: fmt.Sprintf("intermediate %d %s", i, strings.Repeat("x", 600))},
				NotBefore: nb, NotAfter: na, IsCA: true, BasicConstraintsValid: true, KeyUsage: x509.KeyUsageCertSign | x509.KeyUsageDigitalSignature}
			der := mustCert(t, parent, &k.PublicKey, parentKey)
			ic, _ := x509.ParseCertificate(der)
			chain = append([][]byte{der}, chain...)
			parent, parentKey = ic, k
		}
		lk, _ := ecdsa.GenerateKey(elliptic.P256(), rand.Reader)
		lDER := mustCert(leafT, parent, &lk.PublicKey, parentKey)
		c.Long = tls.Certificate{Certificate: append([][]byte{lDER}, chain...), PrivateKey: lk}
		certs = c
	})
	return certs
}

// KeyLog collects NSS key-log lines from both endpoints.
type KeyLog struct {
	mu    sync.Mutex
	lines []string
}

func (k *KeyLog) Write(p []byte) (int, error) {
	k.mu.Lock()
	k.lines = append(k.lines, strings.TrimSpace(string(p)))
	k.mu.Unlock()
	return len(p), nil
}

func (k *KeyLog) Lines() []string {
	k.mu.Lock()
	defer k.mu.Unlock()
	return append([]string(nil), k.lines...)
}

// World is one simulated network with a server and any number of client endpoints.
type World struct {
	Router     *Router
	ServerAddr *net.UDPAddr
	ServerConn *simnet.SimConn
	ServerTr   *quic.Transport
	Listener   *quic.Listener
	KeyLog     *KeyLog
	Start      time.Time
	clients    int
	endpoints  []*simnet.SimConn
}

// NewWorld must be called inside a bubble.
func NewWorld(faults FaultMap) *World {
	w := &World{ServerAddr: &net.UDPAddr{IP: net.IPv4(10, 0, 0, 1), Port: 443}, KeyLog: &KeyLog{}, Start: time.Now()}
	w.Router = NewRouter(w.ServerAddr, OneWay, faults)
	return w
}

// Since returns the virtual time elapsed since the world was created.
func (w *World) Since() time.Duration { return time.Since(w.Start) }

// ServerTLS returns a server TLS config.
func (w *World) ServerTLS(long bool) *tls.Config {
	c := GetCerts()
	cert := c.Leaf
	if long {
		cert = c.Long
	}
	return &tls.Config{Certificates: []tls.Certificate{cert}, NextProtos: []string{ALPN}, KeyLogWriter: w.KeyLog}
}

// ClientTLS returns a client TLS config.
func (w *World) ClientTLS() *tls.Config {
	return &tls.Config{RootCAs: GetCerts().Pool, ServerName: "server.verif", NextProtos: []string{ALPN}, KeyLogWriter: w.KeyLog}
}

// Listen starts the in-tree server on the world's server address.
func (w *World) Listen(tlsConf *tls.Config, conf *quic.Config) (*quic.Listener, error) {
	return w.ListenWith(tlsConf, conf, nil)
}

// ListenWith is Listen with a hook that may set Transport options before first use.
func (w *World) ListenWith(tlsConf *tls.Config, conf *quic.Config, setup func(*quic.Transport)) (*quic.Listener, error) {
	if w.ServerConn == nil {
		w.ServerConn = simnet.NewBlockingSimConn(w.ServerAddr, w.Router)
		w.endpoints = append(w.endpoints, w.ServerConn)
	}
	if w.ServerTr == nil {
		w.ServerTr = &quic.Transport{Conn: w.ServerConn}
		if setup != nil {
			setup(w.ServerTr)
		}
	}
	ln, err := w.ServerTr.Listen(tlsConf, conf)
	if err != nil {
		return nil, err
	}
	w.Listener = ln
	return ln, nil
}

// NewClientEndpoint creates a fresh client socket with its own address.
func (w *World) NewClientEndpoint() *simnet.SimConn {
	w.clients++
	addr := &net.UDPAddr{IP: net.IPv4(10, 0, 1, byte(w.clients)), Port: 40000 + w.clients}
	ep := simnet.NewBlockingSimConn(addr, w.Router)
	w.endpoints = append(w.endpoints, ep)
	return ep
}

// CloseEndpoints closes every simulated socket. A Transport does not close a socket it
// was handed, and the sockets block the router once nobody reads them, so every harness
// calls this last, before leaving the bubble.
func (w *World) CloseEndpoints() {
	for _, ep := range w.endpoints {
		ep.Close()
	}
}

// Dialer abstracts over the client kinds.
type Dialer interface {
	Dial(ctx context.Context, addr net.Addr, tlsConf *tls.Config, conf *quic.Config) (*quic.Conn, error)
	DialEarly(ctx context.Context, addr net.Addr, tlsConf *tls.Config, conf *quic.Config) (*quic.Conn, error)
	Close() error
}

// ClientKind selects how the client is built.
type ClientKind struct {
	Name string
	// Spec: nil with U=false: plain Transport; nil with U=true: UTransport without spec;
	// otherwise a function building the spec for a dial.
	U    bool
	Spec func() *quic.QUICSpec
}

var (
	Plain    = ClientKind{Name: "plain"}
	UNilSpec = ClientKind{Name: "utransport-nil-spec", U: true}
)

// Parrot returns the client kind for a built-in fingerprint.
func Parrot(name string, id quic.QUICID) ClientKind {
	return ClientKind{Name: name, U: true, Spec: func() *quic.QUICSpec {
		s, err := quic.QUICID2Spec(id)
		if err != nil {
			panic(err)
		}
		return &s
	}}
}

// NewDialer creates a client transport of the given kind on a fresh endpoint. The spec
// value (if any) is built once and reused for every dial made through the dialer.
func (w *World) NewDialer(kind ClientKind) (Dialer, *simnet.SimConn, *quic.QUICSpec) {
	ep := w.NewClientEndpoint()
	tr := &quic.Transport{Conn: ep}
	if !kind.U {
		return tr, ep, nil
	}
	ut := &quic.UTransport{Transport: tr}
	if kind.Spec != nil {
		ut.QUICSpec = kind.Spec()
	}
	return ut, ep, ut.QUICSpec
}

// Unpinned makes Run leave crypto/rand and math/rand alone: the pinning is process-global, so
// bubbles that run at the same time (race passes over process-wide state) cannot use it.
var Unpinned atomic.Bool

// Run executes f inside a fresh bubble with crypto/rand and math/rand pinned to seed.
func Run(t *testing.T, name string, seed uint64, f func(t *testing.T)) bool {
	return t.Run(name, func(t *testing.T) {
		if Unpinned.Load() {
			synctest.Test(t, f)
			return
		}
		cryptotest.SetGlobalRandom(t, seed)
		mrand.Seed(int64(seed)) //nolint:staticcheck // effective with GODEBUG=randseednop=0
		synctest.Test(t, f)
	})
}

// InitCerts generates the certificates under a fixed seed so that they are identical in
// every worker process.
func InitCerts(t *testing.T) {
	t.Run("certs", func(t *testing.T) {
		cryptotest.SetGlobalRandom(t, 20250925)
		GetCerts()
	})
}

// WithSeed runs f with crypto/rand and math/rand pinned to seed, outside any bubble: used
// to build spec values (GREASE identifiers, random parameter lengths and the TLS extension
// shuffle are drawn when a spec is built) reproducibly.
func WithSeed(t *testing.T, seed uint64, f func()) {
	t.Run("seeded", func(t *testing.T) {
		cryptotest.SetGlobalRandom(t, seed)
		mrand.Seed(int64(seed)) //nolint:staticcheck
		f()
	})
}
