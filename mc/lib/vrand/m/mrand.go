// Package m (import path .../verifmc/vrand/m) is a drop-in seam for the subset of
// math/rand that the uQUIC frame / flight builders and parrots use. It is a pure
// pass-through to math/rand unless a harness installed a hook with vrand.SetHook; then
// every draw is answered by the hook with its exact domain size.
package m

import (
	mrand "math/rand"

	"github.com/refraction-networking/uquic/internal/verifmc/vrand"
)

// Shuffle replaces math/rand.Shuffle. With a hook installed it performs the same
// Fisher-Yates walk as math/rand (i = n-1 .. 1, j uniform in [0, i+1), swap(i, j)), each
// j being one hook draw with domain i+1.
func Shuffle(n int, swap func(i, j int)) {
	if vrand.Active() == nil {
		mrand.Shuffle(n, swap)
		return
	}
	if n < 0 {
		panic("invalid argument to Shuffle")
	}
	for i := n - 1; i > 0; i-- {
		j, _ := vrand.Draw(vrand.MathShuffle, uint64(i+1))
		swap(i, int(j))
	}
}

// Intn replaces math/rand.Intn.
func Intn(n int) int {
	if vrand.Active() == nil {
		return mrand.Intn(n)
	}
	if n <= 0 {
		panic("invalid argument to Intn")
	}
	v, _ := vrand.Draw(vrand.MathIntn, uint64(n))
	return int(v)
}

// Int63n replaces math/rand.Int63n.
func Int63n(n int64) int64 {
	if vrand.Active() == nil {
		return mrand.Int63n(n)
	}
	if n <= 0 {
		panic("invalid argument to Int63n")
	}
	v, _ := vrand.Draw(vrand.MathIntn, uint64(n))
	return int64(v)
}

// Int31n replaces math/rand.Int31n.
func Int31n(n int32) int32 {
	if vrand.Active() == nil {
		return mrand.Int31n(n)
	}
	if n <= 0 {
		panic("invalid argument to Int31n")
	}
	v, _ := vrand.Draw(vrand.MathIntn, uint64(n))
	return int32(v)
}

// Perm replaces math/rand.Perm (same construction as math/rand: m[i] = m[j]; m[j] = i
// with j uniform in [0, i+1)).
func Perm(n int) []int {
	if vrand.Active() == nil {
		return mrand.Perm(n)
	}
	p := make([]int, n)
	for i := 0; i < n; i++ {
		j, _ := vrand.Draw(vrand.MathIntn, uint64(i+1))
		p[i] = p[j]
		p[j] = i
	}
	return p
}
