// Package vrand is a drop-in seam for the subset of crypto/rand that the uQUIC frame /
// flight builders and parrots use (Reader, Int, Read). The ./check driver import-rewrites
// `"crypto/rand"` in selected repository files to this package (see HARNESS_GUIDE.md,
// `rewrite`).
//
// It is a pure pass-through to crypto/rand unless a harness installed a hook with
// SetHook: then every draw is answered by the hook, which receives the exact domain size
// of the draw (so a model checker can enumerate all draws). The companion package
// vrand/m does the same for math/rand and shares this hook.
//
// The hook is process-global: run one enumeration at a time per process.
package vrand

import (
	crand "crypto/rand"
	"io"
	"math/big"
	"sync/atomic"
)

// Site tells the hook which API a draw comes from.
type Site uint8

const (
	CryptoInt   Site = iota // crypto/rand.Int(reader, max): uniform in [0, max)
	CryptoRead              // crypto/rand.Read / Reader.Read: one draw in [0,256) per byte
	MathShuffle             // math/rand.Shuffle: swap index j in [0, i+1) for i = n-1 .. 1
	MathIntn                // math/rand.Intn / Int63n / Int31n / Perm
)

func (s Site) String() string {
	switch s {
	case CryptoInt:
		return "crypto.Int"
	case CryptoRead:
		return "crypto.Read"
	case MathShuffle:
		return "math.Shuffle"
	case MathIntn:
		return "math.Intn"
	}
	return "?"
}

// Hook answers one draw: it must return a value in [0, n). n is the exact size of the
// draw's domain (n >= 1).
type Hook func(site Site, n uint64) uint64

type hookBox struct{ h Hook }

var cur atomic.Pointer[hookBox]

// SetHook installs h as the source of every draw made through vrand and vrand/m.
// SetHook(nil) restores real randomness (the default).
func SetHook(h Hook) {
	if h == nil {
		cur.Store(nil)
		return
	}
	cur.Store(&hookBox{h})
}

// Active returns the installed hook or nil.
func Active() Hook {
	if b := cur.Load(); b != nil {
		return b.h
	}
	return nil
}

// Draw asks the installed hook for a value in [0, n). ok is false when no hook is
// installed (the caller must then use the real source). A hook answer outside [0, n)
// is a harness bug and panics.
func Draw(site Site, n uint64) (v uint64, ok bool) {
	h := Active()
	if h == nil {
		return 0, false
	}
	v = h(site, n)
	if v >= n {
		panic("vrand: hook returned a value outside the draw's domain")
	}
	return v, true
}

type reader struct{}

func (reader) Read(b []byte) (int, error) {
	if Active() == nil {
		return crand.Reader.Read(b)
	}
	for i := range b {
		v, _ := Draw(CryptoRead, 256)
		b[i] = byte(v)
	}
	return len(b), nil
}

// Reader replaces crypto/rand.Reader.
var Reader io.Reader = reader{}

// Read replaces crypto/rand.Read.
func Read(b []byte) (int, error) {
	if Active() == nil {
		return crand.Read(b)
	}
	return Reader.Read(b)
}

// Int replaces crypto/rand.Int: a uniform value in [0, max). It panics exactly like
// crypto/rand.Int when max <= 0. With a hook installed and r == Reader the value is the
// hook's answer for the domain max (domains beyond 2^63 fall through to the byte reader).
func Int(r io.Reader, max *big.Int) (*big.Int, error) {
	if Active() != nil && max != nil && max.Sign() > 0 && max.IsInt64() {
		if _, mine := r.(reader); mine {
			v, _ := Draw(CryptoInt, max.Uint64())
			return new(big.Int).SetUint64(v), nil
		}
	}
	if _, mine := r.(reader); mine && Active() == nil {
		r = crand.Reader
	}
	return crand.Int(r, max)
}
