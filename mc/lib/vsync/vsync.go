// Package vsync is a drop-in for the subset of package sync that the files under
// lock-point exploration use. Without a hook it is a pure pass-through to sync. With a hook
// installed (E3 lock-point preemption, mc/lib/sched) every Lock / RLock first calls the
// hook — a scheduler point where the calling goroutine can be held back — and locks are
// channel based, because blocking on a sync.Mutex is not a durable block for
// testing/synctest while blocking on a channel is.
package vsync

import "sync"

type (
	Once      = sync.Once
	WaitGroup = sync.WaitGroup
	Pool      = sync.Pool
	Locker    = sync.Locker
	Map       = sync.Map
	Cond      = sync.Cond
)

func NewCond(l Locker) *Cond { return sync.NewCond(l) }

// Hook, when non-nil, is called at every lock acquisition. It must be set before the
// objects under test are created and not changed while they are in use.
var Hook func()

// UnlockHook, when non-nil (and Hook is set), is called right after every Unlock: a scheduler
// point that lets another goroutine run between a critical section and the code that follows
// it (the "lock released too early" class: shared state still used after the unlock).
var UnlockHook func()

type Mutex struct {
	real sync.Mutex
	once sync.Once
	ch   chan struct{}
}

func (m *Mutex) lazy() {
	m.once.Do(func() { m.ch = make(chan struct{}, 1) })
}

func (m *Mutex) Lock() {
	if h := Hook; h != nil {
		h()
		m.lazy()
		m.ch <- struct{}{}
		return
	}
	m.real.Lock()
}

func (m *Mutex) Unlock() {
	if Hook != nil {
		m.lazy()
		<-m.ch
		if h := UnlockHook; h != nil {
			h()
		}
		return
	}
	m.real.Unlock()
}

func (m *Mutex) TryLock() bool {
	if Hook != nil {
		m.lazy()
		select {
		case m.ch <- struct{}{}:
			return true
		default:
			return false
		}
	}
	return m.real.TryLock()
}

// RWMutex under a hook treats readers as writers (fewer behaviours are possible than with
// a real RWMutex, never more: everything a reader may do, a writer may do).
type RWMutex struct {
	real sync.RWMutex
	m    Mutex
}

func (m *RWMutex) Lock() {
	if Hook != nil {
		m.m.Lock()
		return
	}
	m.real.Lock()
}

func (m *RWMutex) Unlock() {
	if Hook != nil {
		m.m.Unlock()
		return
	}
	m.real.Unlock()
}

func (m *RWMutex) RLock() {
	if Hook != nil {
		m.m.Lock()
		return
	}
	m.real.RLock()
}

func (m *RWMutex) RUnlock() {
	if Hook != nil {
		m.m.Unlock()
		return
	}
	m.real.RUnlock()
}
