package wiremon

import (
	"strings"

	"github.com/refraction-networking/uquic/internal/verifmc/ref5"
	"github.com/refraction-networking/uquic/internal/verifmc/sim"
)

// Forge1RTT builds authentic 1-RTT packets of one endpoint (a misbehaving peer: the harness
// owns the TLS key log, so it can speak for either side). One candidate per cipher suite that
// fits the logged secret and per logged secret is returned; the receiver drops the ones that
// do not open. gen is the sender's current key generation (Report.Gen of an Analyze run over the
// log so far); pn should be far above anything the endpoint has used (4-byte encoding).
func Forge1RTT(keylog []string, fromServer bool, version uint32, gen int, dcid []byte, pn uint64, frames []byte) [][]byte {
	label := ref5.LabelClientTraffic
	if fromServer {
		label = ref5.LabelServerTraffic
	}
	for len(frames) < 24 {
		frames = append(frames, 0) // PADDING: room for the header protection sample
	}
	hdr := append([]byte{0x43 | byte(gen&1)<<2}, dcid...) // fixed bit, key phase of the generation, 4-byte packet number
	hdr = append(hdr, byte(pn>>24), byte(pn>>16), byte(pn>>8), byte(pn))
	var out [][]byte
	for _, e := range ref5.ParseKeyLog([]byte(strings.Join(keylog, "\n"))) {
		for _, s := range e.Suites() {
			for _, sec := range e.All[label] {
				if _, ok := keysOf(sec, version, s); !ok {
					continue
				}
				k := ref5.GenerationKeys(sec, version, s, gen)
				if p, err := ref5.Protect(hdr, frames, pn, k); err == nil {
					out = append(out, p)
				}
			}
		}
	}
	return out
}

// ClientCIDLen returns the length of the source connection ID the first client Initial of the
// log carries (what the server puts into the short headers it sends), and the version.
func ClientCIDLen(events []sim.Event) (n int, version uint32, ok bool) {
	for _, ev := range events {
		if ev.Dir != sim.C2S || ev.Injected || len(ev.Data) == 0 || ev.Data[0]&0x80 == 0 {
			continue
		}
		h, err := ref5.ParseLong(ev.Data)
		if err != nil || h.Version == 0 {
			continue
		}
		return len(h.SCID), h.Version, true
	}
	return 0, 0, false
}

// LastDCID returns the destination connection ID of the last short-header datagram sent in
// the given direction (cidLen bytes after the first byte).
func LastDCID(events []sim.Event, dir sim.Dir, cidLen int) ([]byte, bool) {
	for i := len(events) - 1; i >= 0; i-- {
		ev := events[i]
		if ev.Dir == dir && !ev.Injected && len(ev.Data) > 1+cidLen && ev.Data[0]&0x80 == 0 {
			return append([]byte(nil), ev.Data[1:1+cidLen]...), true
		}
	}
	return nil, false
}

// ClientSCID returns the source connection ID of the first client Initial of the log.
func ClientSCID(events []sim.Event) ([]byte, bool) {
	for _, ev := range events {
		if ev.Dir != sim.C2S || ev.Injected || len(ev.Data) == 0 || ev.Data[0]&0x80 == 0 {
			continue
		}
		if h, err := ref5.ParseLong(ev.Data); err == nil && h.Version != 0 {
			return append([]byte(nil), h.SCID...), true
		}
	}
	return nil, false
}
