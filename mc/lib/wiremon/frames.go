// Package wiremon is the passive wire monitor of DESIGN.md section 2: an observer that is
// independent of the implementation under test (its own header parsing, its own frame
// parser, packet protection from mc/lib/ref5, secrets from the TLS key log) and reads the
// complete datagram log of an E2 run. For every datagram an endpoint SENT it removes packet
// protection, parses the frames and checks sender-side invariants that follow from the
// property statements ("a sender never ... unless it has received ..."): what an endpoint
// can have received is over-approximated from the router's fates and virtual send times, so
// the monitor can miss a violation but cannot raise one that did not happen.
package wiremon

import (
	"errors"
	"fmt"
)

// Frame is one parsed QUIC frame (only the fields a check needs).
type Frame struct {
	Type     uint64
	Name     string
	StreamID uint64 // STREAM, RESET_STREAM(_AT), STOP_SENDING, MAX_STREAM_DATA, STREAM_DATA_BLOCKED
	Offset   uint64 // STREAM, CRYPTO
	Data     []byte // STREAM, CRYPTO, DATAGRAM, NEW_TOKEN
	Fin      bool
	Value    uint64      // MAX_DATA, MAX_STREAM_DATA, MAX_STREAMS, *_BLOCKED limit, final size, sequence number
	Value2   uint64      // RESET_STREAM_AT reliable size, NEW_CONNECTION_ID retire prior to
	Bidi     bool        // MAX_STREAMS / STREAMS_BLOCKED
	CID      []byte      // NEW_CONNECTION_ID
	Ranges   [][2]uint64 // ACK: [smallest, largest], descending
	ErrCode  uint64
	AckElic  bool
}

var errTrunc = errors.New("wiremon: truncated frame")

type rd struct {
	b []byte
	p int
}

func (r *rd) varint() (uint64, error) {
	if r.p >= len(r.b) {
		return 0, errTrunc
	}
	n := 1 << (r.b[r.p] >> 6)
	if r.p+n > len(r.b) {
		return 0, errTrunc
	}
	v := uint64(r.b[r.p] & 0x3f)
	for i := 1; i < n; i++ {
		v = v<<8 | uint64(r.b[r.p+i])
	}
	r.p += n
	return v, nil
}

func (r *rd) bytes(n uint64) ([]byte, error) {
	if n > uint64(len(r.b)-r.p) {
		return nil, errTrunc
	}
	out := r.b[r.p : r.p+int(n)]
	r.p += int(n)
	return out, nil
}

// ParseFrames parses a decrypted packet payload (RFC 9000 section 19, RFC 9221 DATAGRAM,
// RESET_STREAM_AT 0x24, ACK_FREQUENCY 0xaf, IMMEDIATE_ACK 0x1f). Runs of PADDING collapse
// into one frame.
func ParseFrames(payload []byte) ([]Frame, error) {
	r := &rd{b: payload}
	var out []Frame
	vs := func(n int) ([]uint64, error) {
		l := make([]uint64, n)
		for i := range l {
			v, err := r.varint()
			if err != nil {
				return nil, err
			}
			l[i] = v
		}
		return l, nil
	}
	for r.p < len(r.b) {
		t, err := r.varint()
		if err != nil {
			return out, err
		}
		f := Frame{Type: t, AckElic: true}
		switch {
		case t == 0x00:
			f.Name, f.AckElic = "PADDING", false
			for r.p < len(r.b) && r.b[r.p] == 0 {
				r.p++
			}
		case t == 0x01:
			f.Name = "PING"
		case t == 0x02 || t == 0x03:
			f.Name, f.AckElic = "ACK", false
			v, err := vs(4) // largest, delay, range count, first range
			if err != nil {
				return out, err
			}
			if v[3] > v[0] {
				return out, fmt.Errorf("wiremon: ACK first range %d exceeds largest acknowledged %d", v[3], v[0])
			}
			lo := v[0] - v[3]
			f.Ranges = append(f.Ranges, [2]uint64{lo, v[0]})
			for i := uint64(0); i < v[2]; i++ {
				g, err := vs(2) // gap, range length
				if err != nil {
					return out, err
				}
				if g[0]+2 > lo {
					return out, fmt.Errorf("wiremon: ACK gap %d underflows below %d", g[0], lo)
				}
				hi := lo - g[0] - 2
				if g[1] > hi {
					return out, fmt.Errorf("wiremon: ACK range length %d underflows below %d", g[1], hi)
				}
				lo = hi - g[1]
				f.Ranges = append(f.Ranges, [2]uint64{lo, hi})
			}
			if t == 0x03 {
				if _, err := vs(3); err != nil {
					return out, err
				}
			}
		case t == 0x04:
			f.Name = "RESET_STREAM"
			v, err := vs(3)
			if err != nil {
				return out, err
			}
			f.StreamID, f.ErrCode, f.Value = v[0], v[1], v[2]
		case t == 0x24:
			f.Name = "RESET_STREAM_AT"
			v, err := vs(4)
			if err != nil {
				return out, err
			}
			f.StreamID, f.ErrCode, f.Value, f.Value2 = v[0], v[1], v[2], v[3]
		case t == 0x05:
			f.Name = "STOP_SENDING"
			v, err := vs(2)
			if err != nil {
				return out, err
			}
			f.StreamID, f.ErrCode = v[0], v[1]
		case t == 0x06:
			f.Name = "CRYPTO"
			v, err := vs(2)
			if err != nil {
				return out, err
			}
			f.Offset = v[0]
			if f.Data, err = r.bytes(v[1]); err != nil {
				return out, err
			}
		case t == 0x07:
			f.Name = "NEW_TOKEN"
			v, err := vs(1)
			if err != nil {
				return out, err
			}
			if f.Data, err = r.bytes(v[0]); err != nil {
				return out, err
			}
		case t >= 0x08 && t <= 0x0f:
			f.Name = "STREAM"
			if f.StreamID, err = r.varint(); err != nil {
				return out, err
			}
			if t&0x04 != 0 {
				if f.Offset, err = r.varint(); err != nil {
					return out, err
				}
			}
			n := uint64(len(r.b) - r.p)
			if t&0x02 != 0 {
				if n, err = r.varint(); err != nil {
					return out, err
				}
			}
			if f.Data, err = r.bytes(n); err != nil {
				return out, err
			}
			f.Fin = t&0x01 != 0
		case t == 0x10:
			f.Name = "MAX_DATA"
			if f.Value, err = r.varint(); err != nil {
				return out, err
			}
		case t == 0x11:
			f.Name = "MAX_STREAM_DATA"
			v, err := vs(2)
			if err != nil {
				return out, err
			}
			f.StreamID, f.Value = v[0], v[1]
		case t == 0x12 || t == 0x13:
			f.Name, f.Bidi = "MAX_STREAMS", t == 0x12
			if f.Value, err = r.varint(); err != nil {
				return out, err
			}
		case t == 0x14:
			f.Name = "DATA_BLOCKED"
			if f.Value, err = r.varint(); err != nil {
				return out, err
			}
		case t == 0x15:
			f.Name = "STREAM_DATA_BLOCKED"
			v, err := vs(2)
			if err != nil {
				return out, err
			}
			f.StreamID, f.Value = v[0], v[1]
		case t == 0x16 || t == 0x17:
			f.Name, f.Bidi = "STREAMS_BLOCKED", t == 0x16
			if f.Value, err = r.varint(); err != nil {
				return out, err
			}
		case t == 0x18:
			f.Name = "NEW_CONNECTION_ID"
			v, err := vs(2)
			if err != nil {
				return out, err
			}
			f.Value, f.Value2 = v[0], v[1]
			l, err := r.bytes(1)
			if err != nil {
				return out, err
			}
			if f.CID, err = r.bytes(uint64(l[0])); err != nil {
				return out, err
			}
			if _, err = r.bytes(16); err != nil {
				return out, err
			}
		case t == 0x19:
			f.Name = "RETIRE_CONNECTION_ID"
			if f.Value, err = r.varint(); err != nil {
				return out, err
			}
		case t == 0x1a || t == 0x1b:
			f.Name = map[uint64]string{0x1a: "PATH_CHALLENGE", 0x1b: "PATH_RESPONSE"}[t]
			if f.Data, err = r.bytes(8); err != nil {
				return out, err
			}
		case t == 0x1c || t == 0x1d:
			f.Name, f.AckElic = "CONNECTION_CLOSE", false
			if f.ErrCode, err = r.varint(); err != nil {
				return out, err
			}
			if t == 0x1c {
				if _, err = r.varint(); err != nil {
					return out, err
				}
			}
			n, err := r.varint()
			if err != nil {
				return out, err
			}
			if _, err = r.bytes(n); err != nil {
				return out, err
			}
			f.Bidi = t == 0x1d // application close
		case t == 0x1e:
			f.Name = "HANDSHAKE_DONE"
		case t == 0x1f:
			f.Name = "IMMEDIATE_ACK"
		case t == 0xaf:
			f.Name = "ACK_FREQUENCY"
			if _, err := vs(4); err != nil {
				return out, err
			}
		case t == 0x30 || t == 0x31:
			f.Name = "DATAGRAM"
			n := uint64(len(r.b) - r.p)
			if t == 0x31 {
				if n, err = r.varint(); err != nil {
					return out, err
				}
			}
			if f.Data, err = r.bytes(n); err != nil {
				return out, err
			}
		default:
			return out, fmt.Errorf("wiremon: unknown frame type 0x%x at offset %d", t, r.p)
		}
		out = append(out, f)
	}
	return out, nil
}
