package wiremon

import (
	"bytes"
	"encoding/hex"
	"fmt"
	"os"
	"sort"
	"strings"
	"time"

	"github.com/refraction-networking/uquic/internal/verifmc/ref5"
	"github.com/refraction-networking/uquic/internal/verifmc/sim"
	"github.com/refraction-networking/uquic/internal/verifmc/wireobs"
)

// Limits is what one endpoint advertised in its transport parameters (taken from the
// configuration the harness gave it). A nil *Limits disables the checks that need it.
type Limits struct {
	MaxData          uint64
	StreamBidiLocal  uint64 // initial_max_stream_data_bidi_local: streams the advertiser opened
	StreamBidiRemote uint64 // initial_max_stream_data_bidi_remote: streams the peer opened
	StreamUni        uint64
	StreamsBidi      uint64
	StreamsUni       uint64
}

type Params struct {
	OneWay time.Duration
	// Limits[0] = advertised by the client, Limits[1] = advertised by the server.
	Limits [2]*Limits
	// NoClose disables the closing-state check (harnesses that restart an endpoint on the
	// same address).
	NoClose bool
}

type Finding struct {
	Key  string
	What string
}

type Report struct {
	Datagrams, Packets, Opened, NotOpened, Frames int
	Connections                                   int
	Gen                                           [2]int // highest 1-RTT key generation each side was seen sending with
	Findings                                      []Finding
	Kinds                                         map[string]int // frame and packet kinds seen (outcome material)
}

func (r *Report) add(key, format string, a ...any) {
	for _, f := range r.Findings {
		if f.Key == key {
			return
		}
	}
	r.Findings = append(r.Findings, Finding{Key: key, What: fmt.Sprintf(format, a...)})
}

var debug = os.Getenv("VERIF_WIREMON_DEBUG") != ""

const (
	spInitial = iota
	spHandshake
	spApp
)

var spaceNames = [...]string{"Initial", "Handshake", "1-RTT"}

type sentPkt struct {
	arrive time.Duration // when an intact copy reached the peer (-1: never)
}

// side is one endpoint of one connection as a sender.
type side struct {
	largest      [3]int64
	unopened     [3]int // packets of this side the monitor could not open (its view of the space is incomplete)
	sent         [3]map[uint64]*sentPkt
	ackedMax     [3]int64 // largest own packet number the peer acknowledged in an ACK that reached this side
	ackKnown     [3][]ackInfo
	gen          int // 1-RTT key generation in use for sending
	streams      map[uint64]*streamRec
	crypto       [3]*streamRec
	closed       bool
	closedAt     time.Duration
	closePayload [3][]byte
	scidLen      int
	// connection IDs this side issued to its peer: seq -> cid (seq 0 = handshake SCID)
	issued map[uint64][]byte
	// limit updates this side sent, with the time they reach the peer
	maxData    []limitUpd
	maxStreamD map[uint64][]limitUpd
	maxStreams [2][]limitUpd // [0]=bidi [1]=uni
	retiredOwn map[uint64]time.Duration
	newCIDs    []cidUpd
	dataSent   uint64 // sum over streams of the highest offset sent
}

type ackInfo struct {
	largest uint64
	arrive  time.Duration
}
type limitUpd struct {
	v      uint64
	arrive time.Duration
}
type cidUpd struct {
	seq    uint64
	cid    []byte
	arrive time.Duration
}

type streamRec struct {
	data    map[uint64]byte
	highest uint64
	final   int64
}

func newStreamRec() *streamRec { return &streamRec{data: map[uint64]byte{}, final: -1} }

type conn struct {
	client    string
	version   uint32
	dcids     [][]byte // destination connection IDs the client chose for its Initials (Initial key material)
	sides     [2]*side
	appSecret [2][]byte // the 1-RTT secret that opened this side's packets
	suite     uint16
	entries   []ref5.KeyLogEntry
	vnOrRetr  bool
	limits    [2]*Limits // read off the wire: [0] from the ClientHello, [1] from EncryptedExtensions
	random    string     // client random of the ClientHello (hex), selects the key log entry
}

func newSide() *side {
	s := &side{streams: map[uint64]*streamRec{}, issued: map[uint64][]byte{}, maxStreamD: map[uint64][]limitUpd{}, retiredOwn: map[uint64]time.Duration{}}
	for i := range s.largest {
		s.largest[i], s.ackedMax[i] = -1, -1
		s.sent[i] = map[uint64]*sentPkt{}
	}
	return s
}

// arrival is the time at which an intact copy of bytes [start,end) of the datagram reaches
// the peer (-1: never). A mutating fate damages one byte or cuts a tail; the other packets
// of a coalesced datagram arrive intact (whether the receiver can still find them behind a
// damaged packet is not modelled: counting them as received errs on the permissive side).
func arrival(ev sim.Event, oneWay time.Duration, start, end int) time.Duration {
	n := len(ev.Data)
	touched := func(lo, hi int) bool { return lo < end && hi > start } // [lo,hi) intersects the packet
	switch ev.Fate {
	case sim.Deliver, sim.Dup:
		return ev.T + oneWay
	case sim.Delay:
		return ev.T + 4*oneWay
	case sim.DelayLong:
		return ev.T + 21*oneWay
	case sim.Drop:
		return -1
	case sim.Flip0:
		if touched(0, 1) {
			return -1
		}
	case sim.Flip7:
		if touched(7, 8) {
			return -1
		}
	case sim.FlipMid:
		if touched(n/2, n/2+1) {
			return -1
		}
	case sim.FlipLast, sim.TruncLast:
		if touched(n-1, n) {
			return -1
		}
	case sim.FlipSCID:
		if p := sim.FlipSCIDPos(ev.Data); touched(p, p+1) {
			return -1
		}
	case sim.Trunc1:
		if touched(1, n) {
			return -1
		}
	case sim.Trunc20:
		if touched(20, n) {
			return -1
		}
	default:
		return -1
	}
	return ev.T + oneWay
}

// pair is everything exchanged between one client address and the server: possibly several
// connections (a closed connection keeps re-sending its CONNECTION_CLOSE while the re-dial
// after a Version Negotiation packet is already under way; successive dials on one socket).
type pair struct {
	conns   []*conn
	entries []ref5.KeyLogEntry
	tainted bool
}

// Analyze reads the complete datagram log of a run.
func Analyze(events []sim.Event, keylog []string, p Params) *Report {
	rep := &Report{Kinds: map[string]int{}}
	if p.OneWay == 0 {
		p.OneWay = sim.OneWay
	}
	entries := ref5.ParseKeyLog([]byte(strings.Join(keylog, "\n")))
	pairs := map[string]*pair{}
	for _, ev := range events {
		d := int(ev.Dir) // 0: the client sent it
		cl := ev.From.String()
		if ev.Dir == sim.S2C {
			cl = ev.To.String()
		}
		pr := pairs[cl]
		if ev.Injected {
			// A forged datagram can split the exchange in ways a passive observer cannot follow (a
			// forged Retry makes the client talk to a second server-side connection under the same
			// client random; a forged Initial is acknowledged): from the first injection on, the
			// exchange of this address pair is left to the harness's own oracles.
			if pr != nil {
				pr.tainted = true
			} else {
				pairs[cl] = &pair{entries: entries, tainted: true}
			}
			rep.Kinds["injected-datagram"]++
			continue
		}
		if pr != nil && pr.tainted {
			rep.Kinds["datagram-after-injection-not-judged"]++
			continue
		}
		rep.Datagrams++
		if pr == nil {
			if d == 1 {
				continue // a server datagram towards an address that never sent anything
			}
			pr = &pair{entries: entries}
			pairs[cl] = pr
		}
		pr.datagram(rep, ev, d, p)
	}
	return rep
}

func hasCID(m map[uint64][]byte, id []byte) bool {
	for _, x := range m {
		if bytes.Equal(x, id) {
			return true
		}
	}
	return false
}

// routeLong finds the connection a long-header packet belongs to (nil: none known).
func (pr *pair) routeLong(rep *Report, d int, h ref5.LongHeader) *conn {
	for i := len(pr.conns) - 1; i >= 0; i-- {
		c := pr.conns[i]
		cli, srv := c.sides[0], c.sides[1]
		if d == 0 {
			if scid, ok := cli.issued[0]; ok && !bytes.Equal(scid, h.SCID) {
				continue
			}
			for _, x := range c.dcids {
				if bytes.Equal(x, h.DCID) {
					return c
				}
			}
			if hasCID(srv.issued, h.DCID) {
				return c
			}
			continue
		}
		if hasCID(srv.issued, h.SCID) {
			return c
		}
		if _, bound := srv.issued[0]; !bound && h.Version == c.version {
			if scid, ok := cli.issued[0]; ok && bytes.Equal(scid, h.DCID) {
				return c // the server's first packet of this connection (or a Retry)
			}
		}
	}
	if d == 0 && h.Type == ref5.TypeInitial {
		c := &conn{entries: pr.entries, sides: [2]*side{newSide(), newSide()}, version: h.Version}
		c.dcids = append(c.dcids, append([]byte(nil), h.DCID...))
		c.sides[0].issued[0] = append([]byte(nil), h.SCID...)
		c.sides[0].scidLen = len(h.SCID)
		pr.conns = append(pr.conns, c)
		rep.Connections++
		return c
	}
	return nil
}

func (pr *pair) datagram(rep *Report, ev sim.Event, d int, p Params) {
	who := [2]string{"client", "server"}[d]
	rest := ev.Data
	first := true
	for len(rest) > 0 {
		start := len(ev.Data) - len(rest)
		if rest[0]&0x80 == 0 {
			// short header: extends to the end of the datagram; the connection is the one whose peer
			// issued the destination connection ID (several candidates with zero-length IDs)
			arr := arrival(ev, p.OneWay, start, len(ev.Data))
			rep.Packets++
			for i := len(pr.conns) - 1; i >= 0; i-- {
				c := pr.conns[i]
				peer := c.sides[1-d]
				if _, ok := peer.issued[0]; !ok || len(rest) < 1+peer.scidLen {
					continue
				}
				if peer.scidLen > 0 && !hasCID(peer.issued, rest[1:1+peer.scidLen]) {
					continue
				}
				if c.short(rep, ev, d, rest, arr, p) {
					return
				}
			}
			// stateless resets and packets sent after the keys were dropped look like this
			rep.NotOpened++
			rep.Kinds[who+":short-header-not-opened"]++
			for _, c := range pr.conns {
				c.sides[d].unopened[spApp]++
			}
			return
		}
		if len(rest) >= 5 && rest[1]|rest[2]|rest[3]|rest[4] == 0 {
			rep.Kinds[who+":VersionNegotiation"]++
			return
		}
		h, err := ref5.ParseLong(rest)
		if err != nil {
			if first {
				rep.add("wire:malformed-long-header:"+who, "%s sent a datagram whose long header does not parse (%v): %x", who, err, head(rest))
			}
			return // trailing garbage after a coalesced packet is padding
		}
		first = false
		c := pr.routeLong(rep, d, h)
		if h.Type == ref5.TypeRetry {
			rep.Kinds[who+":Retry"]++
			if c != nil && d == 1 && len(h.SCID) > 0 {
				c.dcids = append(c.dcids, append([]byte(nil), h.SCID...)) // the client's next Initials are keyed by it
			}
			return
		}
		pkt := rest[:h.PacketLen]
		rest = rest[h.PacketLen:]
		rep.Packets++
		if c == nil {
			// e.g. the phantom connection a server creates for an Initial whose connection ID was
			// damaged in transit
			rep.Kinds[who+":packet-of-unknown-connection"]++
			continue
		}
		c.long(rep, ev, d, h, pkt, arrival(ev, p.OneWay, start, start+h.PacketLen), p)
	}
}

func (c *conn) long(rep *Report, ev sim.Event, d int, h ref5.LongHeader, pkt []byte, arr time.Duration, p Params) {
	me := c.sides[d]
	who := [2]string{"client", "server"}[d]
	if debug {
		fmt.Fprintf(os.Stderr, "WIREMON %v %s type=%d v=%x dcid=%x scid=%x len=%d dcids=%x\n", ev.T, who, h.Type, h.Version, h.DCID, h.SCID, h.PacketLen, c.dcids)
	}
	if d == 1 {
		if _, ok := me.issued[0]; !ok {
			me.issued[0] = append([]byte(nil), h.SCID...)
			me.scidLen = len(h.SCID)
		}
	}
	var space int
	var keys []ref5.Keys
	switch h.Type {
	case ref5.TypeInitial:
		space = spInitial
		for i := len(c.dcids) - 1; i >= 0; i-- {
			ck, sk := ref5.InitialKeys(h.Version, c.dcids[i])
			keys = append(keys, [2]ref5.Keys{ck, sk}[d])
		}
	case ref5.TypeHandshake:
		space = spHandshake
		keys = c.levelKeys(d, [2]string{ref5.LabelClientHandshake, ref5.LabelServerHandshake}[d], h.Version)
	default: // 0-RTT
		space = spApp
		keys = c.levelKeys(d, "CLIENT_EARLY_TRAFFIC_SECRET", h.Version)
	}
	var hdr, payload []byte
	var pn uint64
	opened := false
	for _, k := range keys {
		var err error
		hdr, pn, payload, _, err = ref5.UnprotectLongFull(pkt, k, me.largest[space])
		if err == nil {
			opened = true
			break
		}
	}
	kind := [...]string{"Initial", "0-RTT", "Handshake", "Retry"}[h.Type]
	if !opened {
		rep.NotOpened++
		me.unopened[space]++
		if space == spInitial && len(keys) > 0 || space != spInitial && c.hasSecret(d, h.Type) {
			rep.add("wire:packet-does-not-open:"+who+":"+kind, "%s sent a %s packet at %v that does not open under the RFC 9001 keys of this connection (packet number decoded relative to the largest sent so far, %d): %x...", who, kind, ev.T, me.largest[space], head(pkt))
		}
		return
	}
	rep.Opened++
	rep.Kinds[who+":"+kind]++
	c.packet(rep, ev, d, space, kind, hdr, pn, len(hdr)-pnOffsetOf(h), payload, h.DCID, arr, p)
}

func pnOffsetOf(h ref5.LongHeader) int { return h.PNOffset }

func head(b []byte) []byte {
	if len(b) > 24 {
		return b[:24]
	}
	return b
}

// levelKeys returns candidate keys for a logged secret label: the entry and suite that
// worked before first, else every entry of the key log with every suite of matching size.
func (c *conn) levelKeys(d int, label string, version uint32) []ref5.Keys {
	var out []ref5.Keys
	for i := range c.entries {
		e := &c.entries[i]
		if c.random != "" && e.ClientRandom != c.random {
			continue
		}
		for _, s := range e.Suites() {
			for _, sec := range e.All[label] {
				if k, ok := keysOf(sec, version, s); ok {
					out = append(out, k)
				}
			}
		}
	}
	return out
}

func keysOf(secret []byte, version uint32, suite uint16) (k ref5.Keys, ok bool) {
	defer func() {
		if recover() != nil {
			ok = false // secret size does not fit the suite
		}
	}()
	want := 32
	if suite == ref5.TLS_AES_256_GCM_SHA384 {
		want = 48
	}
	if len(secret) != want {
		return k, false
	}
	return ref5.KeysFromSecret(secret, version, suite), true
}

func (c *conn) short(rep *Report, ev sim.Event, d int, pkt []byte, arr time.Duration, p Params) bool {
	me, peer := c.sides[d], c.sides[1-d]
	who := [2]string{"client", "server"}[d]
	dl := peer.scidLen
	label := [2]string{ref5.LabelClientTraffic, ref5.LabelServerTraffic}[d]
	type cand struct {
		sec []byte
		s   uint16
	}
	var cands []cand
	if c.appSecret[d] != nil {
		cands = append(cands, cand{c.appSecret[d], c.suite})
	}
	for i := range c.entries {
		if c.random != "" && c.entries[i].ClientRandom != c.random {
			continue
		}
		for _, s := range c.entries[i].Suites() {
			for _, sec := range c.entries[i].All[label] {
				cands = append(cands, cand{sec, s})
			}
		}
	}
	for _, cd := range cands {
		for _, g := range []int{me.gen, me.gen + 1} {
			if _, ok := keysOf(cd.sec, c.version, cd.s); !ok {
				continue
			}
			k := ref5.GenerationKeys(cd.sec, c.version, cd.s, g)
			hdr, pn, payload, err := ref5.UnprotectShortFull(pkt, k, me.largest[spApp], dl)
			if err != nil {
				continue
			}
			if g > me.gen {
				rep.Kinds[who+":key-update"]++
				me.gen = g
			}
			rep.Gen[d] = max(rep.Gen[d], me.gen)
			c.appSecret[d], c.suite = cd.sec, cd.s
			rep.Opened++
			rep.Kinds[who+":1-RTT"]++
			c.packet(rep, ev, d, spApp, "1-RTT", hdr, pn, len(hdr)-1-dl, payload, pkt[1:1+dl], arr, p)
			return true
		}
	}
	return false
}

// packet checks one opened packet.
func (c *conn) packet(rep *Report, ev sim.Event, d, space int, kind string, hdr []byte, pn uint64, pnLen int, payload, dcid []byte, arr time.Duration, p Params) {
	me, peer := c.sides[d], c.sides[1-d]
	who := [2]string{"client", "server"}[d]
	at := ev.T
	// ---- packet numbers (C05)
	// (RFC 9000 10.2.1: an endpoint in the closing state may keep only its final packet and send
	// that very packet again in response to incoming packets)
	resentClose := me.closed && int64(pn) == me.largest[space] && bytes.Equal(payload, me.closePayload[space])
	if int64(pn) <= me.largest[space] && !resentClose {
		rep.add("wire:packet-number-not-increasing:"+who+":"+spaceNames[space], "%s sent %s packet number %d at %v after %d in the same packet number space", who, kind, pn, at, me.largest[space])
	}
	// the truncated encoding must decode to the true number for a receiver that has
	// received no more than what the sender knows to be acknowledged
	known := int64(-1)
	for _, a := range me.ackKnown[space] {
		if a.arrive >= 0 && a.arrive <= at && int64(a.largest) > known {
			known = int64(a.largest)
		}
	}
	trunc := pn & (uint64(1)<<(8*uint(pnLen)) - 1)
	if got := ref5.DecodePacketNumber(known, trunc, pnLen); got != pn && !(space == spInitial && d == 0) {
		// (the first flight of a spec-driven client follows the spec'd lengths: C10's domain)
		rep.add("wire:packet-number-encoding-too-short:"+who+":"+spaceNames[space], "%s sent %s packet number %d at %v in %d byte(s); a receiver whose largest received number is %d (the largest this sender can know to be acknowledged) decodes it as %d", who, kind, pn, at, pnLen, known, got)
	}
	if int64(pn) > me.largest[space] {
		me.largest[space] = int64(pn)
	}
	me.sent[space][pn] = &sentPkt{arrive: arr}
	// ---- frames
	frames, err := ParseFrames(payload)
	if debug {
		var names []string
		for _, f := range frames {
			names = append(names, f.Name)
		}
		fmt.Fprintf(os.Stderr, "WIREMON %v %s %s pn=%d pnlen=%d dcid=%x arr=%v frames=%v fate=%v idx=%d\n", at, who, kind, pn, pnLen, dcid, arr, names, ev.Fate, ev.Idx)
	}
	if err != nil {
		rep.add("wire:payload-does-not-parse:"+who, "%s sent a %s packet (number %d, at %v) whose payload does not parse as RFC 9000 frames: %v", who, kind, pn, at, err)
		return
	}
	if len(frames) == 0 {
		rep.add("wire:empty-packet:"+who, "%s sent a %s packet (number %d) without any frame", who, kind, pn)
	}
	hasClose := false
	for _, f := range frames {
		rep.Frames++
		rep.Kinds[who+":"+kind+":"+f.Name]++
		// ---- frame allowed at this level (RFC 9000 table 3)
		switch kind {
		case "Initial", "Handshake":
			switch f.Name {
			case "PADDING", "PING", "ACK", "CRYPTO":
			case "CONNECTION_CLOSE":
				if f.Bidi {
					rep.add("wire:frame-not-allowed:"+who+":"+kind+":APPLICATION_CLOSE", "%s sent CONNECTION_CLOSE of type 0x1d in a %s packet", who, kind)
				}
			default:
				rep.add("wire:frame-not-allowed:"+who+":"+kind+":"+f.Name, "%s sent a %s frame in a %s packet (number %d)", who, f.Name, kind, pn)
			}
		case "0-RTT":
			switch f.Name {
			case "ACK", "CRYPTO", "NEW_TOKEN", "PATH_RESPONSE", "RETIRE_CONNECTION_ID", "HANDSHAKE_DONE":
				rep.add("wire:frame-not-allowed:"+who+":0-RTT:"+f.Name, "%s sent a %s frame in a 0-RTT packet (number %d)", who, f.Name, pn)
			}
		}
		if f.Name == "HANDSHAKE_DONE" && d == 0 {
			rep.add("wire:frame-not-allowed:client:HANDSHAKE_DONE", "the client sent HANDSHAKE_DONE")
		}
		if f.Name == "NEW_TOKEN" && d == 0 {
			rep.add("wire:frame-not-allowed:client:NEW_TOKEN", "the client sent NEW_TOKEN")
		}
		switch f.Name {
		case "CONNECTION_CLOSE":
			hasClose = true
		case "ACK":
			// ---- C07: only packet numbers that reached this endpoint by now
			for _, r := range f.Ranges {
				if r[1]-r[0] > 1<<20 {
					rep.add("wire:ack-range-absurd:"+who, "%s acknowledged the range [%d,%d] in the %s space", who, r[0], r[1], spaceNames[space])
					continue
				}
				for n := r[0]; n <= r[1]; n++ {
					sp := peer.sent[space][n]
					if peer.unopened[space] > 0 {
						continue // the monitor did not see everything the peer sent in this space
					}
					if sp == nil {
						rep.add("wire:ack-of-packet-never-sent:"+who+":"+spaceNames[space], "%s acknowledged %s packet number %d at %v (ranges %v); the peer never sent it", who, spaceNames[space], n, at, f.Ranges)
					} else if sp.arrive < 0 || sp.arrive > at {
						rep.add("wire:ack-of-packet-not-received:"+who+":"+spaceNames[space], "%s acknowledged %s packet number %d at %v (ranges %v); no intact copy of it had reached %s by then (arrival %v)", who, spaceNames[space], n, at, f.Ranges, who, sp.arrive)
					}
				}
			}
			if arr >= 0 {
				peer.ackKnown[space] = append(peer.ackKnown[space], ackInfo{largest: f.Ranges[0][1], arrive: arr})
			}
		case "CRYPTO":
			if me.crypto[space] == nil {
				me.crypto[space] = newStreamRec()
			}
			c.data(rep, who, "CRYPTO/"+spaceNames[space], me.crypto[space], f.Offset, f.Data, false, at)
			c.readLimits(d, space)
		case "STREAM":
			c.stream(rep, d, who, f, at, p)
		case "RESET_STREAM", "RESET_STREAM_AT":
			if wrongSender(f.StreamID, d, true) {
				rep.add("wire:stream-wrong-direction:"+who+":"+f.Name, "%s sent %s for stream %d, a receive-only stream for it", who, f.Name, f.StreamID)
			}
			s := me.streams[f.StreamID]
			if s == nil {
				s = newStreamRec()
				me.streams[f.StreamID] = s
			}
			if f.Value < s.highest {
				rep.add("wire:final-size-below-sent:"+who, "%s sent %s for stream %d with final size %d after sending data up to offset %d", who, f.Name, f.StreamID, f.Value, s.highest)
			}
			if s.final >= 0 && uint64(s.final) != f.Value {
				rep.add("wire:final-size-changed:"+who, "%s announced final size %d for stream %d after %d", who, f.Value, f.StreamID, s.final)
			}
			s.final = int64(f.Value)
			if f.Name == "RESET_STREAM_AT" && f.Value2 > f.Value {
				rep.add("wire:reliable-size-above-final:"+who, "%s sent RESET_STREAM_AT for stream %d with reliable size %d above final size %d", who, f.StreamID, f.Value2, f.Value)
			}
		case "STOP_SENDING", "MAX_STREAM_DATA":
			if wrongSender(f.StreamID, d, false) {
				rep.add("wire:stream-wrong-direction:"+who+":"+f.Name, "%s sent %s for stream %d, a send-only stream for it", who, f.Name, f.StreamID)
			}
			if f.Name == "MAX_STREAM_DATA" && arr >= 0 {
				me.maxStreamD[f.StreamID] = append(me.maxStreamD[f.StreamID], limitUpd{f.Value, arr})
			}
		case "MAX_DATA":
			if arr >= 0 {
				me.maxData = append(me.maxData, limitUpd{f.Value, arr})
			}
		case "MAX_STREAMS":
			if arr >= 0 {
				i := 1
				if f.Bidi {
					i = 0
				}
				me.maxStreams[i] = append(me.maxStreams[i], limitUpd{f.Value, arr})
			}
		case "NEW_CONNECTION_ID":
			if old, ok := me.issued[f.Value]; ok && !bytes.Equal(old, f.CID) {
				rep.add("wire:connection-id-sequence-reused:"+who, "%s issued sequence number %d twice with different connection IDs (%x, %x)", who, f.Value, old, f.CID)
			}
			me.issued[f.Value] = append([]byte(nil), f.CID...)
			if arr >= 0 {
				me.newCIDs = append(me.newCIDs, cidUpd{f.Value, append([]byte(nil), f.CID...), arr})
			}
		case "RETIRE_CONNECTION_ID":
			// RFC 9000 19.16: must not refer to the Destination Connection ID of its own packet
			if cid, ok := peer.issued[f.Value]; ok && len(cid) > 0 && bytes.Equal(cid, dcid) {
				rep.add("wire:retire-connection-id-of-carrying-packet:"+who, "%s sent RETIRE_CONNECTION_ID(%d) in a packet addressed to that very connection ID %x", who, f.Value, dcid)
			}
			if _, ok := peer.issued[f.Value]; !ok {
				known := false
				for _, u := range peer.newCIDs {
					known = known || u.seq == f.Value
				}
				if !known && f.Value != 1 { // (sequence number 1 can come from the preferred_address parameter)
					rep.add("wire:retire-connection-id-never-issued:"+who, "%s retired sequence number %d, which the peer never issued", who, f.Value)
				}
			}
			if _, ok := me.retiredOwn[f.Value]; !ok {
				me.retiredOwn[f.Value] = at
			}
		}
	}
	// ---- C16: a 1-RTT packet is addressed to a connection ID the peer issued and that this
	// sender has not retired before
	if kind == "1-RTT" && len(dcid) > 0 {
		seq, found := uint64(0), false
		for s, cid := range peer.issued {
			if bytes.Equal(cid, dcid) {
				seq, found = s, true
			}
		}
		if !found && peer.unopened[spApp] == 0 {
			rep.add("wire:destination-connection-id-never-issued:"+who, "%s addressed a 1-RTT packet (number %d, at %v) to connection ID %s, which the peer never issued (issued: %s)", who, pn, at, hex.EncodeToString(dcid), cidList(peer.issued))
		} else if t, ok := me.retiredOwn[seq]; ok && t < at {
			rep.add("wire:retired-connection-id-used:"+who, "%s addressed a 1-RTT packet (number %d, at %v) to connection ID %x (sequence number %d) although it had sent RETIRE_CONNECTION_ID for it at %v", who, pn, at, dcid, seq, t)
		}
	}
	// ---- C17: in the closing state only packets that carry CONNECTION_CLOSE are sent
	if !p.NoClose {
		if me.closed && !hasClose {
			rep.add("wire:packet-after-connection-close:"+who, "%s sent a %s packet (number %d) without CONNECTION_CLOSE at %v, after it had sent CONNECTION_CLOSE at %v", who, kind, pn, at, me.closedAt)
		}
		if hasClose && !me.closed {
			me.closed, me.closedAt = true, at
		}
		if hasClose {
			me.closePayload[space] = append([]byte(nil), payload...)
		}
	}
}

func cidList(m map[uint64][]byte) string {
	var ks []uint64
	for k := range m {
		ks = append(ks, k)
	}
	sort.Slice(ks, func(i, j int) bool { return ks[i] < ks[j] })
	var sb strings.Builder
	for _, k := range ks {
		fmt.Fprintf(&sb, "%d:%x ", k, m[k])
	}
	return sb.String()
}

// wrongSender: stream id bit 0 = initiator (0 client), bit 1 = unidirectional. A
// unidirectional stream carries data from its initiator only.
func wrongSender(id uint64, d int, sendsData bool) bool {
	if id&2 == 0 {
		return false
	}
	initiator := int(id & 1)
	if sendsData {
		return initiator != d
	}
	return initiator == d
}

// data records bytes of a stream and checks that a retransmission never changes them.
func (c *conn) data(rep *Report, who, name string, s *streamRec, off uint64, b []byte, fin bool, at time.Duration) {
	for i, x := range b {
		o := off + uint64(i)
		if old, ok := s.data[o]; ok && old != x {
			rep.add("wire:stream-data-changed:"+who+":"+strings.SplitN(name, "/", 2)[0], "%s sent byte 0x%02x at offset %d of %s at %v after sending 0x%02x at the same offset", who, x, o, name, at, old)
			break
		}
		s.data[o] = x
	}
	end := off + uint64(len(b))
	if s.final >= 0 && end > uint64(s.final) {
		rep.add("wire:data-beyond-final-size:"+who, "%s sent %s data up to offset %d after announcing final size %d", who, name, end, s.final)
	}
	if fin {
		if s.final >= 0 && uint64(s.final) != end {
			rep.add("wire:final-size-changed:"+who, "%s sent FIN at offset %d of %s after announcing final size %d", who, end, name, s.final)
		}
		if end < s.highest {
			rep.add("wire:final-size-below-sent:"+who, "%s sent FIN at offset %d of %s after sending data up to %d", who, end, name, s.highest)
		}
		s.final = int64(end)
	}
	if end > s.highest {
		s.highest = end
	}
}

func latest(l []limitUpd, at time.Duration, init uint64) uint64 {
	v := init
	for _, u := range l {
		if u.arrive <= at && u.v > v {
			v = u.v
		}
	}
	return v
}

func (c *conn) stream(rep *Report, d int, who string, f Frame, at time.Duration, p Params) {
	me, peer := c.sides[d], c.sides[1-d]
	if wrongSender(f.StreamID, d, true) {
		rep.add("wire:stream-wrong-direction:"+who+":STREAM", "%s sent STREAM data on stream %d, a receive-only stream for it", who, f.StreamID)
	}
	s := me.streams[f.StreamID]
	isNew := s == nil
	if isNew {
		s = newStreamRec()
		me.streams[f.StreamID] = s
	}
	before := s.highest
	c.data(rep, who, fmt.Sprintf("STREAM/%d", f.StreamID), s, f.Offset, f.Data, f.Fin, at)
	if s.highest > before {
		me.dataSent += s.highest - before
	}
	lim := c.limits[1-d] // what the peer advertised (read off the wire)
	if lim == nil {
		lim = p.Limits[1-d]
	}
	if lim == nil {
		return
	}
	// ---- C04: never beyond the limits that reached this sender
	mine := int(f.StreamID&1) == d
	var init uint64
	switch {
	case f.StreamID&2 != 0:
		init = lim.StreamUni
	case mine:
		init = lim.StreamBidiRemote // opened by me = remote from the advertiser's point of view
	default:
		init = lim.StreamBidiLocal
	}
	if sl := latest(peer.maxStreamD[f.StreamID], at, init); s.highest > sl {
		rep.add("wire:stream-data-beyond-stream-limit:"+who, "%s sent data up to offset %d on stream %d at %v; the largest limit the peer had advertised to it by then is %d", who, s.highest, f.StreamID, at, sl)
	}
	if cl := latest(peer.maxData, at, lim.MaxData); me.dataSent > cl {
		rep.add("wire:stream-data-beyond-connection-limit:"+who, "%s had sent %d stream bytes in total at %v; the largest MAX_DATA the peer had advertised to it by then is %d", who, me.dataSent, at, cl)
	}
	// ---- C15: streams opened by this sender stay within the peer's stream limit
	if mine {
		n := f.StreamID>>2 + 1
		i, initN := 0, lim.StreamsBidi
		if f.StreamID&2 != 0 {
			i, initN = 1, lim.StreamsUni
		}
		if ml := latest(peer.maxStreams[i], at, initN); n > ml {
			rep.add("wire:stream-beyond-max-streams:"+who, "%s used stream %d (the %d-th of its type) at %v; the largest MAX_STREAMS the peer had advertised to it by then is %d", who, f.StreamID, n, at, ml)
		}
	}
}

// hasSecret: the key log holds, for THIS connection (matched by the client random of its
// ClientHello), the secret that protects a long-header packet of the given type sent by
// side d. Only then is a packet that does not open a finding; otherwise the monitor simply
// lacks the key (the endpoint that would have logged it never derived it).
func (c *conn) hasSecret(d int, typ int) bool {
	if c.random == "" {
		return false
	}
	label := [2]string{ref5.LabelClientHandshake, ref5.LabelServerHandshake}[d]
	if typ != ref5.TypeHandshake {
		label = "CLIENT_EARLY_TRAFFIC_SECRET"
	}
	for i := range c.entries {
		if c.entries[i].ClientRandom == c.random {
			_, ok := c.entries[i].Secrets[label]
			return ok
		}
	}
	return false
}

// prefix returns the contiguous bytes from offset 0 recorded so far.
func (s *streamRec) prefix() []byte {
	var b []byte
	for i := uint64(0); ; i++ {
		x, ok := s.data[i]
		if !ok {
			return b
		}
		b = append(b, x)
	}
}

func limitsOf(tps []wireobs.TransportParam) *Limits {
	l := &Limits{}
	for _, tp := range tps {
		v, ok := tp.VarintValue()
		if !ok {
			continue
		}
		switch tp.ID {
		case 0x04:
			l.MaxData = v
		case 0x05:
			l.StreamBidiLocal = v
		case 0x06:
			l.StreamBidiRemote = v
		case 0x07:
			l.StreamUni = v
		case 0x08:
			l.StreamsBidi = v
		case 0x09:
			l.StreamsUni = v
		}
	}
	return l
}

// readLimits extracts the transport parameters an endpoint advertised from its own
// handshake messages: the ClientHello (client, Initial) and EncryptedExtensions (server,
// Handshake).
func (c *conn) readLimits(d, space int) {
	if c.limits[d] != nil {
		return
	}
	me := c.sides[d]
	if d == 0 && space == spInitial {
		b := me.crypto[spInitial].prefix()
		if len(b) < 4 || len(b) < 4+int(b[1])<<16+int(b[2])<<8+int(b[3]) {
			return
		}
		ch, err := wireobs.ParseClientHello(b)
		if err != nil {
			return
		}
		c.random = hex.EncodeToString(ch.Random)
		if tps, err := ch.TransportParams(); err == nil {
			c.limits[0] = limitsOf(tps)
		} else {
			c.limits[0] = &Limits{}
		}
		return
	}
	if d == 1 && space == spHandshake {
		b := me.crypto[spHandshake].prefix()
		for len(b) >= 4 {
			n := int(b[1])<<16 | int(b[2])<<8 | int(b[3])
			if len(b) < 4+n {
				return
			}
			body := b[4 : 4+n]
			if b[0] == 8 && len(body) >= 2 { // EncryptedExtensions
				ext := body[2:]
				for len(ext) >= 4 {
					t := int(ext[0])<<8 | int(ext[1])
					l := int(ext[2])<<8 | int(ext[3])
					if len(ext) < 4+l {
						break
					}
					if t == 0x39 {
						if tps, err := wireobs.ParseTransportParams(ext[4 : 4+l]); err == nil {
							c.limits[1] = limitsOf(tps)
						}
					}
					ext = ext[4+l:]
				}
				return
			}
			b = b[4+n:]
		}
	}
}
