package wireobs

import (
	"errors"
	"fmt"
)

// Extension is one TLS extension of a ClientHello.
type Extension struct {
	Type uint16
	Data []byte
}

// TransportParam is one QUIC transport parameter in wire order.
type TransportParam struct {
	ID    uint64
	Value []byte
}

// ClientHello is the observer's view of a TLS ClientHello.
type ClientHello struct {
	LegacyVersion uint16
	Random        []byte
	SessionID     []byte
	CipherSuites  []uint16
	Compression   []byte
	Extensions    []Extension
	Raw           []byte
}

// ParseClientHello reads a complete ClientHello handshake message (and nothing after it).
func ParseClientHello(b []byte) (*ClientHello, error) {
	if len(b) < 4 {
		return nil, errors.New("ClientHello: shorter than a handshake header")
	}
	if b[0] != 1 {
		return nil, fmt.Errorf("handshake type %d, want 1", b[0])
	}
	l := int(b[1])<<16 | int(b[2])<<8 | int(b[3])
	if len(b) != 4+l {
		return nil, fmt.Errorf("ClientHello: handshake length %d but %d bytes of CRYPTO stream", l, len(b)-4)
	}
	ch := &ClientHello{Raw: b}
	p := b[4:]
	take := func(n int) ([]byte, error) {
		if len(p) < n {
			return nil, errors.New("ClientHello truncated")
		}
		x := p[:n]
		p = p[n:]
		return x, nil
	}
	x, err := take(2)
	if err != nil {
		return nil, err
	}
	ch.LegacyVersion = uint16(x[0])<<8 | uint16(x[1])
	if ch.Random, err = take(32); err != nil {
		return nil, err
	}
	if x, err = take(1); err != nil {
		return nil, err
	}
	if ch.SessionID, err = take(int(x[0])); err != nil {
		return nil, err
	}
	if x, err = take(2); err != nil {
		return nil, err
	}
	cs, err := take(int(x[0])<<8 | int(x[1]))
	if err != nil {
		return nil, err
	}
	for i := 0; i+1 < len(cs); i += 2 {
		ch.CipherSuites = append(ch.CipherSuites, uint16(cs[i])<<8|uint16(cs[i+1]))
	}
	if x, err = take(1); err != nil {
		return nil, err
	}
	if ch.Compression, err = take(int(x[0])); err != nil {
		return nil, err
	}
	if len(p) == 0 {
		return ch, nil
	}
	if x, err = take(2); err != nil {
		return nil, err
	}
	if int(x[0])<<8|int(x[1]) != len(p) {
		return nil, fmt.Errorf("extensions length %d, %d bytes left", int(x[0])<<8|int(x[1]), len(p))
	}
	for len(p) > 0 {
		h, err := take(4)
		if err != nil {
			return nil, err
		}
		d, err := take(int(h[2])<<8 | int(h[3]))
		if err != nil {
			return nil, err
		}
		ch.Extensions = append(ch.Extensions, Extension{Type: uint16(h[0])<<8 | uint16(h[1]), Data: d})
	}
	return ch, nil
}

// ExtensionTypes returns the extension types in wire order.
func (ch *ClientHello) ExtensionTypes() []uint16 {
	var t []uint16
	for _, e := range ch.Extensions {
		t = append(t, e.Type)
	}
	return t
}

// Extension returns the first extension of a type.
func (ch *ClientHello) Extension(t uint16) (Extension, bool) {
	for _, e := range ch.Extensions {
		if e.Type == t {
			return e, true
		}
	}
	return Extension{}, false
}

// TransportParams reads the quic_transport_parameters extension (0x39) in wire order.
func (ch *ClientHello) TransportParams() ([]TransportParam, error) {
	e, ok := ch.Extension(0x39)
	if !ok {
		return nil, errors.New("no quic_transport_parameters extension")
	}
	return ParseTransportParams(e.Data)
}

// ParseTransportParams reads a transport parameter sequence.
func ParseTransportParams(b []byte) ([]TransportParam, error) {
	var out []TransportParam
	for len(b) > 0 {
		id, n, err := Varint(b)
		if err != nil {
			return out, err
		}
		b = b[n:]
		l, n, err := Varint(b)
		if err != nil {
			return out, err
		}
		b = b[n:]
		if uint64(len(b)) < l {
			return out, fmt.Errorf("transport parameter %#x: length %d exceeds extension", id, l)
		}
		out = append(out, TransportParam{ID: id, Value: append([]byte(nil), b[:l]...)})
		b = b[l:]
	}
	return out, nil
}

// IsGreaseTP tells whether a transport parameter id is reserved for GREASE (31*N+27).
func IsGreaseTP(id uint64) bool { return id >= 27 && (id-27)%31 == 0 }

// VarintValue decodes a transport parameter value that is a single varint.
func (p TransportParam) VarintValue() (uint64, bool) {
	v, n, err := Varint(p.Value)
	if err != nil || n != len(p.Value) {
		return 0, false
	}
	return v, true
}
