package wireobs

// Packet construction for the on-path attacker of the E2 checks: Version Negotiation,
// Retry (with a valid or an invalid integrity tag) and protected Initial packets (the
// Initial keys are public knowledge for anyone who saw the client's first packet).

import (
	"crypto/aes"
	"crypto/cipher"
	"encoding/binary"
)

// AppendVarint appends a QUIC variable-length integer.
func AppendVarint(b []byte, v uint64) []byte {
	switch {
	case v < 1<<6:
		return append(b, byte(v))
	case v < 1<<14:
		return append(b, byte(v>>8)|0x40, byte(v))
	case v < 1<<30:
		return append(b, byte(v>>24)|0x80, byte(v>>16), byte(v>>8), byte(v))
	default:
		return append(b, byte(v>>56)|0xc0, byte(v>>48), byte(v>>40), byte(v>>32), byte(v>>24), byte(v>>16), byte(v>>8), byte(v))
	}
}

// VersionNegotiation builds a Version Negotiation packet addressed to a client whose
// Initial carried (clientDCID, clientSCID).
func VersionNegotiation(clientDCID, clientSCID []byte, versions []uint32) []byte {
	b := []byte{0xc0 | 0x2a, 0, 0, 0, 0}
	b = append(b, byte(len(clientSCID)))
	b = append(b, clientSCID...)
	b = append(b, byte(len(clientDCID)))
	b = append(b, clientDCID...)
	for _, v := range versions {
		b = binary.BigEndian.AppendUint32(b, v)
	}
	return b
}

var (
	retryKeyV1   = []byte{0xbe, 0x0c, 0x69, 0x0b, 0x9f, 0x66, 0x57, 0x5a, 0x1d, 0x76, 0x6b, 0x54, 0xe3, 0x68, 0xc8, 0x4e}
	retryNonceV1 = []byte{0x46, 0x15, 0x99, 0xd3, 0x5d, 0x63, 0x2b, 0xf2, 0x23, 0x98, 0x25, 0xbb}
	retryKeyV2   = []byte{0x8f, 0xb4, 0xb0, 0x1b, 0x56, 0xac, 0x48, 0xe2, 0x60, 0xfb, 0xcb, 0xce, 0xad, 0x7c, 0xcc, 0x92}
	retryNonceV2 = []byte{0xd8, 0x69, 0x69, 0xbc, 0x2d, 0x7c, 0x6d, 0x99, 0x90, 0xef, 0xb0, 0x4a}
)

// RetryTag computes the Retry integrity tag (RFC 9001 5.8, RFC 9369 3.3.3).
func RetryTag(version uint32, odcid, retryWithoutTag []byte) []byte {
	key, nonce := retryKeyV1, retryNonceV1
	if version == V2 {
		key, nonce = retryKeyV2, retryNonceV2
	}
	blk, _ := aes.NewCipher(key)
	gcm, _ := cipher.NewGCM(blk)
	pseudo := append([]byte{byte(len(odcid))}, odcid...)
	pseudo = append(pseudo, retryWithoutTag...)
	return gcm.Seal(nil, nonce, nil, pseudo)
}

// Retry builds a Retry packet towards the client. odcid is the destination connection ID
// of the client's first Initial; newSCID is the connection ID the "server" asks the client
// to use. validTag=false flips one bit of the tag.
func Retry(version uint32, clientSCID, newSCID, odcid, token []byte, validTag bool) []byte {
	first := byte(0xc0 | 0x30 | 0x05) // long header, fixed bit, type Retry (v1), unused bits
	if version == V2 {
		first = 0xc0 | 0x00 | 0x05
	}
	b := []byte{first}
	b = binary.BigEndian.AppendUint32(b, version)
	b = append(b, byte(len(clientSCID)))
	b = append(b, clientSCID...)
	b = append(b, byte(len(newSCID)))
	b = append(b, newSCID...)
	b = append(b, token...)
	tag := RetryTag(version, odcid, b)
	if !validTag {
		tag[3] ^= 0x10
	}
	return append(b, tag...)
}

// SealInitial builds a protected Initial packet.
func SealInitial(version uint32, k Keys, dcid, scid, token []byte, pn uint64, payload []byte, padTo int) []byte {
	first := byte(0xc0 | 0x00 | 0x01) // Initial (v1), 2-byte packet number
	if version == V2 {
		first = 0xc0 | 0x10 | 0x01
	}
	hdr := []byte{first}
	hdr = binary.BigEndian.AppendUint32(hdr, version)
	hdr = append(hdr, byte(len(dcid)))
	hdr = append(hdr, dcid...)
	hdr = append(hdr, byte(len(scid)))
	hdr = append(hdr, scid...)
	hdr = AppendVarint(hdr, uint64(len(token)))
	hdr = append(hdr, token...)
	// pad the payload so that the datagram reaches padTo bytes
	for {
		total := len(hdr) + 2 /* length varint */ + 2 /* pn */ + len(payload) + 16
		if total >= padTo {
			break
		}
		payload = append(payload, 0)
	}
	length := 2 + len(payload) + 16
	hdr = append(hdr, byte(length>>8)|0x40, byte(length))
	pnOff := len(hdr)
	hdr = append(hdr, byte(pn>>8), byte(pn))
	nonce := append([]byte(nil), k.IV...)
	for i := 0; i < 8; i++ {
		nonce[len(nonce)-1-i] ^= byte(pn >> (8 * i))
	}
	ab, _ := aes.NewCipher(k.Key)
	gcm, _ := cipher.NewGCM(ab)
	pkt := gcm.Seal(hdr, nonce, payload, hdr)
	hb, _ := aes.NewCipher(k.HP)
	var mask [16]byte
	hb.Encrypt(mask[:], pkt[pnOff+4:pnOff+20])
	pkt[0] ^= mask[0] & 0x0f
	pkt[pnOff] ^= mask[1]
	pkt[pnOff+1] ^= mask[2]
	return pkt
}

// CryptoFrame encodes a CRYPTO frame.
func CryptoFrame(offset uint64, data []byte) []byte {
	b := []byte{0x06}
	b = AppendVarint(b, offset)
	b = AppendVarint(b, uint64(len(data)))
	return append(b, data...)
}

// ConnectionCloseFrame encodes a transport-level CONNECTION_CLOSE frame.
func ConnectionCloseFrame(code uint64, reason string) []byte {
	b := []byte{0x1c}
	b = AppendVarint(b, code)
	b = AppendVarint(b, 0)
	b = AppendVarint(b, uint64(len(reason)))
	return append(b, reason...)
}
