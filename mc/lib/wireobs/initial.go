// Package wireobs is an independent passive observer of QUIC Initial packets: it removes
// Initial packet protection with the standard keys (RFC 9001 section 5.2, RFC 9369), reads
// the long header, the frames (own varint / PADDING / PING / ACK / CRYPTO /
// CONNECTION_CLOSE reader), reassembles the CRYPTO stream and reads the TLS ClientHello
// and its quic_transport_parameters extension. It shares no code with the repository.
package wireobs

import (
	"crypto/aes"
	"crypto/cipher"
	"crypto/hkdf"
	"crypto/sha256"
	"encoding/binary"
	"errors"
	"fmt"
	"sort"
)

const (
	V1 = 0x00000001
	V2 = 0x6b3343cf
)

var (
	saltV1 = []byte{0x38, 0x76, 0x2c, 0xf7, 0xf5, 0x59, 0x34, 0xb3, 0x4d, 0x17, 0x9a, 0xe6, 0xa4, 0xc8, 0x0c, 0xad, 0xcc, 0xbb, 0x7f, 0x0a}
	saltV2 = []byte{0x0d, 0xed, 0xe3, 0xde, 0xf7, 0x00, 0xa6, 0xdb, 0x81, 0x93, 0x81, 0xbe, 0x6e, 0x26, 0x9d, 0xcb, 0xf9, 0xbd, 0x2e, 0xd9}
)

func expandLabel(secret []byte, label string, n int) []byte {
	full := "tls13 " + label
	info := []byte{byte(n >> 8), byte(n), byte(len(full))}
	info = append(info, full...)
	info = append(info, 0)
	out, err := hkdf.Expand(sha256.New, secret, string(info), n)
	if err != nil {
		panic(err)
	}
	return out
}

// Keys are AES-128-GCM packet protection keys.
type Keys struct {
	Key, IV, HP []byte
}

// InitialKeys derives the client and server Initial keys for a destination connection ID.
func InitialKeys(version uint32, dcid []byte) (client, server Keys, err error) {
	var salt []byte
	kl, il, hl := "quic key", "quic iv", "quic hp"
	switch version {
	case V1:
		salt = saltV1
	case V2:
		salt = saltV2
		kl, il, hl = "quicv2 key", "quicv2 iv", "quicv2 hp"
	default:
		return client, server, fmt.Errorf("unknown version %#x", version)
	}
	initial, err := hkdf.Extract(sha256.New, dcid, salt)
	if err != nil {
		return client, server, err
	}
	mk := func(label string) Keys {
		s := expandLabel(initial, label, 32)
		return Keys{Key: expandLabel(s, kl, 16), IV: expandLabel(s, il, 12), HP: expandLabel(s, hl, 16)}
	}
	return mk("client in"), mk("server in"), nil
}

// Varint reads a QUIC variable-length integer.
func Varint(b []byte) (v uint64, n int, err error) {
	if len(b) == 0 {
		return 0, 0, errors.New("varint: empty")
	}
	n = 1 << (b[0] >> 6)
	if len(b) < n {
		return 0, 0, errors.New("varint: truncated")
	}
	v = uint64(b[0] & 0x3f)
	for i := 1; i < n; i++ {
		v = v<<8 | uint64(b[i])
	}
	return v, n, nil
}

// LongPacket is one long-header packet found in a datagram.
type LongPacket struct {
	Type       int // 0 Initial, 1 0-RTT, 2 Handshake, 3 Retry (version-independent numbering)
	Version    uint32
	DCID, SCID []byte
	Token      []byte
	Length     int // Length field
	HeaderLen  int // bytes before the packet number
	TotalLen   int // bytes of the datagram this packet occupies
	PN         uint64
	PNLen      int
	Payload    []byte // decrypted frames (Initial only, when keys fit)
	Decrypted  bool
	Raw        []byte
}

// SplitDatagram walks the coalesced packets of a datagram. Short-header packets and
// trailing garbage end the walk; Rest holds what was not consumed.
func SplitDatagram(d []byte) (pkts []*LongPacket, rest []byte, err error) {
	for len(d) > 0 {
		if d[0]&0x80 == 0 {
			return pkts, d, nil
		}
		if len(d) < 7 {
			return pkts, d, errors.New("long header truncated")
		}
		p := &LongPacket{Version: binary.BigEndian.Uint32(d[1:5])}
		if p.Version == 0 { // version negotiation
			return pkts, d, nil
		}
		t := int(d[0]>>4) & 3
		if p.Version == V2 { // RFC 9369: Initial=1, 0-RTT=2, Handshake=3, Retry=0
			t = (t + 3) % 4
		}
		p.Type = t
		i := 5
		dl := int(d[i])
		i++
		if dl > 20 || len(d) < i+dl+1 {
			return pkts, d, errors.New("bad DCID length")
		}
		p.DCID = append([]byte(nil), d[i:i+dl]...)
		i += dl
		sl := int(d[i])
		i++
		if sl > 20 || len(d) < i+sl {
			return pkts, d, errors.New("bad SCID length")
		}
		p.SCID = append([]byte(nil), d[i:i+sl]...)
		i += sl
		if p.Type == 3 { // Retry: rest of the datagram
			p.HeaderLen, p.TotalLen, p.Raw = i, len(d), d
			pkts = append(pkts, p)
			return pkts, nil, nil
		}
		if p.Type == 0 {
			tl, n, err := Varint(d[i:])
			if err != nil {
				return pkts, d, err
			}
			i += n
			if uint64(len(d)-i) < tl {
				return pkts, d, errors.New("token truncated")
			}
			p.Token = append([]byte(nil), d[i:i+int(tl)]...)
			i += int(tl)
		}
		l, n, err := Varint(d[i:])
		if err != nil {
			return pkts, d, err
		}
		i += n
		if uint64(len(d)-i) < l {
			return pkts, d, fmt.Errorf("Length field %d exceeds the %d remaining bytes", l, len(d)-i)
		}
		p.Length, p.HeaderLen, p.TotalLen = int(l), i, i+int(l)
		p.Raw = d[:p.TotalLen]
		pkts = append(pkts, p)
		d = d[p.TotalLen:]
	}
	return pkts, nil, nil
}

// DecodePN is RFC 9000 A.3.
func DecodePN(largest int64, truncated uint64, nbits uint) uint64 {
	expected := uint64(largest + 1)
	win := uint64(1) << nbits
	hwin := win / 2
	mask := win - 1
	cand := (expected &^ mask) | truncated
	if cand+hwin <= expected && cand < (1<<62)-win {
		return cand + win
	}
	if cand > expected+hwin && cand >= win {
		return cand - win
	}
	return cand
}

// Unprotect removes header and packet protection from a long-header packet in place of a
// copy; largest is the largest packet number the observer has successfully processed in
// this space (-1: none).
func (p *LongPacket) Unprotect(k Keys, largest int64) error {
	raw := append([]byte(nil), p.Raw...)
	if len(raw) < p.HeaderLen+4+16 {
		return errors.New("packet too short for a header-protection sample")
	}
	blk, err := aes.NewCipher(k.HP)
	if err != nil {
		return err
	}
	var mask [16]byte
	blk.Encrypt(mask[:], raw[p.HeaderLen+4:p.HeaderLen+20])
	raw[0] ^= mask[0] & 0x0f
	pnLen := int(raw[0]&3) + 1
	var trunc uint64
	for i := 0; i < pnLen; i++ {
		raw[p.HeaderLen+i] ^= mask[1+i]
		trunc = trunc<<8 | uint64(raw[p.HeaderLen+i])
	}
	pn := DecodePN(largest, trunc, uint(8*pnLen))
	nonce := append([]byte(nil), k.IV...)
	for i := 0; i < 8; i++ {
		nonce[len(nonce)-1-i] ^= byte(pn >> (8 * i))
	}
	ab, err := aes.NewCipher(k.Key)
	if err != nil {
		return err
	}
	gcm, err := cipher.NewGCM(ab)
	if err != nil {
		return err
	}
	hdr := raw[:p.HeaderLen+pnLen]
	pt, err := gcm.Open(nil, nonce, raw[p.HeaderLen+pnLen:p.TotalLen], hdr)
	if err != nil {
		return fmt.Errorf("AEAD open failed (pn %d, pnLen %d): %w", pn, pnLen, err)
	}
	if raw[0]&0x0c != 0 {
		return fmt.Errorf("reserved bits set in first byte %#x", raw[0])
	}
	p.PN, p.PNLen, p.Payload, p.Decrypted = pn, pnLen, pt, true
	return nil
}

// Frame is one frame of an Initial packet payload.
type Frame struct {
	Type   uint64
	Offset uint64 // CRYPTO
	Data   []byte // CRYPTO
	Len    int    // bytes on the wire (runs of PADDING are one frame)
}

// Frames reads an Initial payload; only the frame types allowed there are understood.
func Frames(b []byte) ([]Frame, error) {
	var out []Frame
	for len(b) > 0 {
		t := uint64(b[0])
		switch {
		case t == 0x00:
			n := 0
			for n < len(b) && b[n] == 0 {
				n++
			}
			out = append(out, Frame{Type: 0, Len: n})
			b = b[n:]
		case t == 0x01:
			out = append(out, Frame{Type: 1, Len: 1})
			b = b[1:]
		case t == 0x02 || t == 0x03:
			i := 1
			var vals [4]uint64
			for k := 0; k < 4; k++ {
				v, n, err := Varint(b[i:])
				if err != nil {
					return out, err
				}
				vals[k] = v
				i += n
			}
			for r := uint64(0); r < vals[2]*2; r++ {
				_, n, err := Varint(b[i:])
				if err != nil {
					return out, err
				}
				i += n
			}
			if t == 0x03 {
				for k := 0; k < 3; k++ {
					_, n, err := Varint(b[i:])
					if err != nil {
						return out, err
					}
					i += n
				}
			}
			out = append(out, Frame{Type: t, Len: i})
			b = b[i:]
		case t == 0x06:
			i := 1
			off, n, err := Varint(b[i:])
			if err != nil {
				return out, err
			}
			i += n
			l, n, err := Varint(b[i:])
			if err != nil {
				return out, err
			}
			i += n
			if uint64(len(b)-i) < l {
				return out, fmt.Errorf("CRYPTO frame length %d exceeds payload", l)
			}
			out = append(out, Frame{Type: 6, Offset: off, Data: append([]byte(nil), b[i:i+int(l)]...), Len: i + int(l)})
			b = b[i+int(l):]
		case t == 0x1c || t == 0x1d:
			i := 1
			_, n, err := Varint(b[i:])
			if err != nil {
				return out, err
			}
			i += n
			if t == 0x1c {
				_, n, err = Varint(b[i:])
				if err != nil {
					return out, err
				}
				i += n
			}
			l, n, err := Varint(b[i:])
			if err != nil {
				return out, err
			}
			i += n + int(l)
			if i > len(b) {
				return out, errors.New("CONNECTION_CLOSE truncated")
			}
			out = append(out, Frame{Type: t, Len: i})
			b = b[i:]
		default:
			return out, fmt.Errorf("frame type %#x is not allowed in an Initial packet", t)
		}
	}
	return out, nil
}

// Reassemble joins CRYPTO frames; it fails if two frames disagree on a byte or if the
// stream has a hole below its highest offset.
func Reassemble(frames []Frame) ([]byte, error) {
	var cr []Frame
	for _, f := range frames {
		if f.Type == 6 {
			cr = append(cr, f)
		}
	}
	sort.SliceStable(cr, func(i, j int) bool { return cr[i].Offset < cr[j].Offset })
	var out []byte
	have := []bool{}
	for _, f := range cr {
		end := int(f.Offset) + len(f.Data)
		for len(out) < end {
			out = append(out, 0)
			have = append(have, false)
		}
		for i, x := range f.Data {
			p := int(f.Offset) + i
			if have[p] && out[p] != x {
				return nil, fmt.Errorf("CRYPTO frames disagree on stream byte %d", p)
			}
			out[p], have[p] = x, true
		}
	}
	for i, h := range have {
		if !h {
			return out, fmt.Errorf("CRYPTO stream has a hole at offset %d (highest offset %d)", i, len(out))
		}
	}
	return out, nil
}
