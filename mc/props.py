# Per-property harness configuration for ./check (see DESIGN.md section 0.2).
# Every mc/cNN/prop.py defines PROP = dict(...); they are merged here under their id.
import glob, os

_HERE = os.path.dirname(os.path.abspath(__file__))
PROPS = {}
for _f in sorted(glob.glob(os.path.join(_HERE, "c[0-9][0-9]*", "prop.py"))):
    _ns = {}
    try:
        exec(compile(open(_f).read(), _f, "exec"), _ns)
        _p = _ns["PROP"]
        for _k in ("level", "level_text", "level_note", "technique"):
            _p[_k]
    except Exception as _e:  # a half-written prop.py must not break the other checks
        import sys
        print("props: skipping %s: %r" % (_f, _e), file=sys.stderr)
        continue
    PROPS["C" + os.path.basename(os.path.dirname(_f))[1:]] = _p

# one-line reasons for properties that have no check yet
NOT_YET = {}
